import numpy as np, z3, time, warnings, sys, fractions
warnings.filterwarnings('ignore')
from sym import *
import sym as S
from WallGo import Grid3Scales
exec(open('p3.py').read().split("def main():")[0].split("from WallGo import Grid3Scales")[1])
F=fractions.Fraction
def main():
    e=Engine.cur
    r=Sym(toz3(F(2,7)))
    L,tin,tout,sm,wc=[Sym(toz3(v)) for v in (F(1),F(5),F(4),F(1,10),F(1,3))]
    g=Grid3Scales.__new__(Grid3Scales)
    g.momentumFalloffT=1.0
    g._updateParameters(tin,tout,L,r,sm,wc)
    if sys.argv[1]=='over':
        e.side=[c for c in e.side if 'sqrt' not in str(c)]; e.sq={}
        g.aIn=Sym(toz3(F(12,7))); g.aOut=Sym(toz3(F(12,7)))
    x=sym('x')
    e.side += [x.t>-1, x.t<1]
    z,_,_=g.decompactify(Dual(x,1.0),np.array(0.0),np.array(0.0))
    z=z.item() if isinstance(z,np.ndarray) else z
    J,_,_=g.compactificationDerivatives(x,np.array(0.0),np.array(0.0))
    return z,J
res=explore(main,maxpaths=50)
print('paths',len(res))
for e,(z,J) in res:
    print('side',len(e.side),'pc',len(e.pc))
    for name,extra in (('identity',[z.d.t-J.t!=0]),('monotone',[J.t<=0]),('mutant',[z.d.t-J.t*(1+S.toz3(1e-3))!=0])):
        s=z3.Solver(); s.set('timeout',120000)
        for c in e.pc+e.side+extra: s.add(c)
        t=time.time(); r=s.check(); print(name,r,round(time.time()-t,2)); sys.stdout.flush()
