import z3,time
def chk(name,cons,timeout=60000):
    s=z3.Solver(); s.set('timeout',timeout); s.add(cons); t=time.time(); r=s.check(); print(name,r,round(time.time()-t,2)); return s if str(r)=='sat' else None
# C02: junction relations => flux conservation
pp,pm,ep,em,vp,vm=z3.Reals('pp pm ep em vp vm')
wp,wm=ep+pp,em+pm
pre=[vp>0,vp<1,vm>0,vm<1,wp>0,wm>0, ep!=em, ep+pm!=0]
vpvm=(pp-pm)/(ep-em); vpovm=(em+pp)/(ep+pm)
rel=[vp*vp==vpvm*vpovm, vm*vm==vpvm/vpovm]
gp2,gm2=1/(1-vp*vp),1/(1-vm*vm)
e_flux=wp*gp2*vp-wm*gm2*vm
m_flux=wp*gp2*vp*vp+pp-(wm*gm2*vm*vm+pm)
chk('C02 energy',pre+rel+[e_flux!=0])
chk('C02 momentum',pre+rel+[m_flux!=0])
# mutant: vpovm=(em+pm)/(ep+pp)
rel2=[vp*vp==vpvm*((em+pm)/(ep+pp)), vm*vm==vpvm/((em+pm)/(ep+pp))]
chk('C02 mutant',pre+rel2+[e_flux!=0])
# C04: LHS(T)=0 and v=plasmaVelocity => T30,T33
K,V,w,s1,s2,sq=z3.Reals('K V w s1 s2 sq')
pre=[w>0,sq>=0,sq*sq==4*s1*s1+w*w,s1!=0]
lhs=K-V-w/2+sq/2-s2
v=(-w+sq)/(2*s1)
g2=1/(1-v*v)
chk('C04 T30',pre+[lhs==0, w*g2*v!=s1])
chk('C04 T33',pre+[lhs==0, K-V+w*g2*v*v!=s2])
chk('C04 |v|<1',pre+[z3.Or(v>=1,v<=-1)])
