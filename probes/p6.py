import z3,time,sys
F=z3.Float64(); rm=z3.RNE()
rmin,newmin=z3.FP('rmin',F),z3.FP('newmin',F)
n=int(sys.argv[1])
nf=z3.FPVal(float(n),F)
d=z3.fpSub(rm,rmin,newmin)
sp=z3.fpDiv(rm,d,nf)
q=z3.fpDiv(rm,d,sp)
# ceil(q) > n  <=> q > n
s=z3.Solver(); s.set('timeout',300000)
s.add(z3.fpGT(rmin,z3.FPVal(0.1,F)), z3.fpLT(rmin,z3.FPVal(200.0,F)), z3.fpGT(d,z3.FPVal(0.001,F)), z3.fpLT(d,z3.FPVal(50.0,F)))
s.add(z3.fpGT(q,nf))
nxt=z3.fpAdd(rm,newmin,sp); delta=z3.fpSub(rm,nxt,newmin)
last=z3.fpAdd(rm,newmin,z3.fpMul(rm,nf,delta))
s.add(z3.fpGEQ(last,rmin))
t=time.time(); r=s.check(); print('z3',n,r,round(time.time()-t,1))
if str(r)=='sat':
    m=s.model(); print(m)
open(f'fp{n}.smt2','w').write('(set-logic QF_FP)\n'+s.sexpr()+'(check-sat)\n(get-model)\n')
