import numpy as np, z3, time, warnings
warnings.filterwarnings('ignore')
from sym import *
import sym as S
from WallGo import Grid3Scales

ATANH=S.ATANH
class Dual:
    __array_priority__=2000
    def __init__(s,v,d): s.v=v if isinstance(v,Sym) else Sym(toz3(v)); s.d=d if isinstance(d,Sym) else Sym(toz3(d))
    @staticmethod
    def lift(o):
        if isinstance(o,Dual): return o
        if isinstance(o,complex):
            assert o.imag==0; o=o.real
        if isinstance(o,np.ndarray) and o.ndim==0: o=o.item()
        if isinstance(o,Dual): return o
        return Dual(o,0.0)
    def __add__(s,o): o=Dual.lift(o); return Dual(s.v+o.v,s.d+o.d)
    __radd__=__add__
    def __sub__(s,o): o=Dual.lift(o); return Dual(s.v-o.v,s.d-o.d)
    def __rsub__(s,o): o=Dual.lift(o); return Dual(o.v-s.v,o.d-s.d)
    def __mul__(s,o): o=Dual.lift(o); return Dual(s.v*o.v,s.d*o.v+s.v*o.d)
    __rmul__=__mul__
    def __truediv__(s,o): o=Dual.lift(o); return Dual(s.v/o.v,(s.d*o.v-s.v*o.d)/(o.v*o.v))
    def __rtruediv__(s,o): o=Dual.lift(o); return o.__truediv__(s)
    def __neg__(s): return Dual(-s.v,-s.d)
    def __pow__(s,n):
        assert isinstance(n,(int,np.integer)) and n>=1
        r=s
        for _ in range(n-1): r=r*s
        return r
    def sqrt(s):
        r=s.v.sqrt(); return Dual(r, s.d/(2*r))
    def arctanh(s):
        return Dual(Sym(ATANH(s.v.t)), s.d/(1-s.v*s.v))
    @property
    def real(s): return s
    __array_ufunc__=S._array_ufunc

def main():
    e=Engine.cur
    L,r,tin,tout,sm,wc=[sym(n) for n in ('L','r','tin','tout','sm','wc')]
    g=Grid3Scales.__new__(Grid3Scales)
    g.momentumFalloffT=1.0
    g._updateParameters(tin,tout,L,r,sm,wc)   # asserts act as preconditions
    x=sym('x')
    e.side += [x.t>-1, x.t<1]
    z,_,_=g.decompactify(Dual(x,1.0),np.array(0.0),np.array(0.0))
    J,_,_=g.compactificationDerivatives(x,np.array(0.0),np.array(0.0))
    z=z.item() if isinstance(z,np.ndarray) else z
    return z,J
res=explore(main,maxpaths=50)
print('paths',len(res))
for e,(z,J) in res:
    s=z3.Solver(); s.set('timeout',120000)
    for c in e.pc+e.side: s.add(c)
    diff=z.d.t-J.t
    s.add(diff!=0)
    t=time.time(); r=s.check(); print('identity',r,round(time.time()-t,2), 'pc',len(e.pc),'side',len(e.side))
    if str(r)=='sat': print(s.model())
    # monotone
    s=z3.Solver(); s.set('timeout',120000)
    for c in e.pc+e.side: s.add(c)
    s.add(J.t<=0)
    t=time.time(); r=s.check(); print('monotone',r,round(time.time()-t,2))
    if str(r)=='sat': print(s.model())
