"""Probe: minimal symbolic real with forking bools, numpy-compatible."""
import z3, numpy as np, builtins, fractions, math

class Abort(BaseException): pass
ATANH=z3.Function('atanh',z3.RealSort(),z3.RealSort())

class Engine:
    cur=None
    def __init__(self):
        self.solver=z3.Solver(); self.decisions=[]; self.pos=0; self.pc=[]; self.nfresh=0; self.side=[]
    def fresh(self,name='t'):
        self.nfresh+=1; return z3.Real(f'{name}!{self.nfresh}')
    def branch(self, cond):
        # cond: z3 BoolRef
        cond=z3.simplify(cond)
        if z3.is_true(cond): return True
        if z3.is_false(cond): return False
        if self.pos < len(self.decisions):
            d=self.decisions[self.pos]; self.pos+=1
            self.pc.append(cond if d else z3.Not(cond)); return d
        # new decision: check feasibility
        feas=[]
        for d in (True,False):
            self.solver.push(); 
            for c in self.pc+self.side: self.solver.add(c)
            self.solver.add(cond if d else z3.Not(cond))
            r=self.solver.check(); self.solver.pop()
            if str(r)!='unsat': feas.append(d)
        if not feas: raise Abort('infeasible path')
        d=feas[0]
        self.decisions.append(d); self.pos+=1
        self.todo.append((len(self.decisions)-1, feas))
        self.pc.append(cond if d else z3.Not(cond)); return d

def explore(fn, maxpaths=1000):
    """run fn() under all feasible paths; yields (engine, result)"""
    prefix=[]; results=[]
    stack=[[]]  # decision prefixes to run
    n=0
    while stack and n<maxpaths:
        pre=stack.pop(); n+=1
        e=Engine(); e.decisions=list(pre); e.todo=[]; Engine.cur=e
        try:
            r=fn(); results.append((e,r))
        except Abort: pass
        except AssertionError as ex: pass
        finally: Engine.cur=None
        for idx,feas in e.todo:
            if len(feas)==2:
                stack.append(e.decisions[:idx]+[feas[1]])
    return results

def toz3(x):
    if isinstance(x,Sym): return x.t
    if isinstance(x,(bool,np.bool_)): raise TypeError
    if isinstance(x,(int,np.integer)): return z3.RealVal(int(x))
    if isinstance(x,(float,np.floating)):
        f=fractions.Fraction(float(x)); g=f.limit_denominator(1000)
        if g!=f and abs(g-f)<=abs(f)*fractions.Fraction(1,2**52): f=g
        return z3.RealVal(f)
    if isinstance(x,fractions.Fraction): return z3.RealVal(x)
    if isinstance(x,complex) and x.imag==0: return toz3(x.real)
    raise TypeError(type(x))

class SymBool:
    def __init__(self,t): self.t=t
    def __bool__(self): return Engine.cur.branch(self.t)
    def __and__(self,o): return SymBool(z3.And(self.t, o.t if isinstance(o,SymBool) else z3.BoolVal(bool(o))))
    __rand__=__and__
    def __or__(self,o): return SymBool(z3.Or(self.t, o.t if isinstance(o,SymBool) else z3.BoolVal(bool(o))))
    __ror__=__or__
    def __invert__(self): return SymBool(z3.Not(self.t))

class Sym:
    __array_priority__=1000
    def __init__(self,t): self.t=t
    def _b(self,o,f,rev=False):
        try: oz=toz3(o)
        except TypeError: return NotImplemented
        return Sym(f(oz,self.t) if rev else f(self.t,oz))
    def __add__(s,o): return s._b(o,lambda a,b:a+b)
    def __radd__(s,o): return s._b(o,lambda a,b:a+b,True)
    def __sub__(s,o): return s._b(o,lambda a,b:a-b)
    def __rsub__(s,o): return s._b(o,lambda a,b:a-b,True)
    def __mul__(s,o): return s._b(o,lambda a,b:a*b)
    def __rmul__(s,o): return s._b(o,lambda a,b:a*b,True)
    def __truediv__(s,o): return s._b(o,lambda a,b:a/b)
    def __rtruediv__(s,o): return s._b(o,lambda a,b:a/b,True)
    def __neg__(s): return Sym(-s.t)
    def __pos__(s): return s
    def __abs__(s): return Sym(z3.If(s.t>=0,s.t,-s.t))
    def __pow__(s,o):
        if isinstance(o,(int,np.integer)) or (isinstance(o,(float,np.floating)) and float(o).is_integer()):
            n=int(o)
            if n>=0:
                r=z3.RealVal(1)
                for _ in range(n): r=r*s.t
                return Sym(r)
            return Sym(1/(s**(-n)).t)
        if isinstance(o,(float,np.floating)) and float(2*o).is_integer():
            n=int(2*o)  # half-integer
            return s.sqrt()**n
        raise NotImplementedError(('pow',o))
    def _c(s,o,f):
        if isinstance(o,(float,np.floating)) and math.isinf(o):
            big=z3.RealVal(1); # compare finite with +-inf
            return bool(f(z3.RealVal(0), z3.RealVal(1 if o>0 else -1)).__bool__()) if False else Engine.cur.branch(z3.simplify(f(z3.RealVal(0), z3.RealVal(1 if o>0 else -1))))
        try: oz=toz3(o)
        except TypeError: return NotImplemented
        return Engine.cur.branch(f(s.t,oz))
    def __lt__(s,o): return s._c(o,lambda a,b:a<b)
    def __le__(s,o): return s._c(o,lambda a,b:a<=b)
    def __gt__(s,o): return s._c(o,lambda a,b:a>b)
    def __ge__(s,o): return s._c(o,lambda a,b:a>=b)
    def __eq__(s,o): return s._c(o,lambda a,b:a==b)
    def __ne__(s,o): return s._c(o,lambda a,b:a!=b)
    __hash__=None
    def sqrt(s):
        e=Engine.cur
        key=z3.simplify(s.t)
        if not hasattr(e,'sq'): e.sq={}
        k=key.sexpr()
        if k in e.sq: return Sym(e.sq[k])
        if z3.is_rational_value(key):
            import math
            q=key.as_fraction(); n,d=q.numerator,q.denominator
            if n>=0 and math.isqrt(n)**2==n and math.isqrt(d)**2==d:
                return Sym(toz3(fractions.Fraction(math.isqrt(n),math.isqrt(d))))
        r=e.fresh('sqrt'); e.side+= [r>=0, r*r==s.t]; e.sq[k]=r; return Sym(r)
    def __repr__(s): return f'Sym({s.t})'
    @property
    def real(s): return s
    def arctanh(s): return Sym(ATANH(s.t))
    def __float__(s): raise TypeError('float() of Sym')

def sym(name): return Sym(z3.Real(name))

import operator, math
_UF = {
 'add':operator.add,'subtract':operator.sub,'multiply':operator.mul,'true_divide':operator.truediv,'divide':operator.truediv,
 'power':operator.pow,'negative':operator.neg,'positive':operator.pos,'absolute':abs,
 'less':operator.lt,'less_equal':operator.le,'greater':operator.gt,'greater_equal':operator.ge,'equal':operator.eq,'not_equal':operator.ne,
 'maximum':lambda a,b: a if a>=b else b,'minimum':lambda a,b: a if a<=b else b,
 'square':lambda a:a*a,
}
for _n in ('sqrt','exp','log','tanh','arctanh','cosh','sinh','cos','sin','tan','arctan'):
    _UF[_n]=(lambda n: (lambda a: getattr(a,n)() if hasattr(a,n) else getattr(math,n.replace('arc','a'))(a)))(_n)
_CMP={'less','less_equal','greater','greater_equal','equal','not_equal'}
def _array_ufunc(self, ufunc, method, *inputs, **kwargs):
    if method!='__call__' or kwargs.get('out') is not None or ufunc.__name__ not in _UF: return NotImplemented
    f=_UF[ufunc.__name__]
    ins=[i.item() if (isinstance(i,np.ndarray) and i.ndim==0) or isinstance(i,np.generic) else i for i in inputs]
    if not any(isinstance(i,np.ndarray) for i in ins):
        r=f(*ins)
        return bool(r) if ufunc.__name__ in _CMP else r
    def box(v):
        if isinstance(v,np.ndarray): return v
        a=np.empty((),dtype=object); a[()]=v; return a
    r=np.frompyfunc(f,len(ins),1)(*[box(v) for v in ins])
    if ufunc.__name__ in _CMP: r=r.astype(bool)
    return r
Sym.__array_ufunc__=_array_ufunc
