import numpy as np, z3, time, warnings
warnings.filterwarnings('ignore')
from sym import *
import WallGo
from WallGo import Grid, Polynomial
import WallGo.polynomial as P
import builtins
def symfloat(x):
    if isinstance(x,Sym): return x
    if isinstance(x,np.ndarray) and x.dtype==object and x.ndim==0: return x.item()
    return builtins.float(x)
P.float=symfloat

def run(M,N,direction,endpoints):
    g=Grid(M,N,1.0,1.0)
    size={'z':M-1+2*endpoints,'pz':N-1+2*endpoints,'pp':N-1+endpoints}[direction]
    # polynomial in monomial basis with symbolic coeffs c_k, degree < size(+2 if no endpoints: vanishing at endpoints)
    x=g.getCompactCoordinates(endpoints,direction)
    deg=size  # number of free coefficients
    c=[sym(f'c{k}') for k in range(deg)]
    def poly(xx):
        # p(x) = (1-x^2)*sum c_k x^k  if not endpoints for z,pz ; (1-x)*sum for pp
        s=0
        for k in range(deg): s=s+c[k]*xx**k
        if not endpoints:
            s = s*(1-xx**2) if direction in('z','pz') else s*(1-xx)
        return s
    def dpoly(xx):
        s=0; ds=0
        for k in range(deg):
            s=s+c[k]*xx**k
            if k>0: ds=ds+c[k]*k*xx**(k-1)
        if not endpoints:
            if direction in('z','pz'): return ds*(1-xx**2)+s*(-2*xx)
            return ds*(1-xx)-s
        return ds
    vals=np.array([poly(float(xi)) for xi in x],dtype=object)
    p=Polynomial(vals,g,'Cardinal',direction,endpoints)
    d=p.derivative(0)
    xf=g.getCompactCoordinates(True,direction)
    exact=[dpoly(float(xi)) for xi in xf]
    s=z3.Solver()
    for ck in c: s.add(ck.t>=-1,ck.t<=1)
    s.add(z3.Or([z3.Or(d.coefficients[i].t-toz3(exact[i])>1e-8, toz3(exact[i])-d.coefficients[i].t>1e-8) for i in range(len(xf))]))
    t=time.time(); r=s.check(); 
    print(M,N,direction,endpoints,'deriv',r,round(time.time()-t,2))
    # change basis roundtrip
    p2=Polynomial(vals.copy(),g,'Cardinal',direction,endpoints)
    p2.changeBasis('Chebyshev'); p2.changeBasis('Cardinal')
    s=z3.Solver()
    for ck in c: s.add(ck.t>=-1,ck.t<=1)
    s.add(z3.Or([z3.Or(p2.coefficients[i].t-vals[i].t>1e-9, vals[i].t-p2.coefficients[i].t>1e-9) for i in range(size)]))
    t=time.time(); r=s.check(); print('   roundtrip',r,round(time.time()-t,2))

e=Engine(); Engine.cur=e
for M,N in [(4,3),(6,5),(10,7),(20,11)]:
    for direction in ('z','pz','pp'):
        for ep in (False,True):
            run(M,N,direction,ep)
