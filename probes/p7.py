import numpy as np, z3, time, warnings, sys, builtins
warnings.filterwarnings('ignore')
from sym import *
import sym as S
import WallGo.thermodynamics as TH
TH.float=lambda x: x if isinstance(x,(Sym,)) else (x.item() if isinstance(x,np.ndarray) and x.dtype==object else builtins.float(x))
POW=z3.Function('pow',z3.RealSort(),z3.RealSort(),z3.RealSort())
def sympow(s,o):
    if isinstance(o,(int,float)) and float(o).is_integer() and abs(o)<8:
        n=int(o); r=Sym(z3.RealVal(1))
        for _ in range(abs(n)): r=r*s
        return r if n>=0 else 1/r
    e=Engine.cur
    ot=toz3(o)
    app=POW(s.t,z3.simplify(ot)); e.pows=getattr(e,'pows',[])+[(s.t,z3.simplify(ot),app)]
    return Sym(app)
Sym.__pow__=sympow
PF=[z3.Function(n,z3.RealSort(),z3.RealSort()) for n in ('P','dP','ddP')]
class FEVal:
    def __init__(s,v): s.veffValue=v
class FE:
    def __init__(s,tmin,tmax): s.minPossibleTemperature=[tmin,False]; s.maxPossibleTemperature=[tmax,False]
    def __call__(s,T): return FEVal(-Sym(PF[0](toz3(T))))
    def derivative(s,T,order=1): return FEVal(-Sym(PF[order](toz3(T))))
def main():
    e=Engine.cur
    th=TH.Thermodynamics.__new__(TH.Thermodynamics)
    tmin,tmax=sym('TMin'),sym('TMax')
    e.side+=[tmin.t>0,tmax.t>tmin.t]
    th.freeEnergyHigh=FE(tmin,tmax); th.freeEnergyLow=FE(tmin,tmax)
    th.TMinHighT=th.TMinLowT=tmin; th.TMaxHighT=th.TMaxLowT=tmax
    for T0 in (tmin,tmax):
        e.side+=[PF[1](T0.t)>0,PF[2](T0.t)>0]
    th.setExtrapolate()
    T=sym('T'); e.side+=[T.t>0]
    return th,T,th.pHighT(T),th.dpHighT(T),th.ddpHighT(T),th.csqHighT(T),tmin,tmax
res=explore(main,maxpaths=50)
print('paths',len(res))
for e,(th,T,p,dp,ddp,csq,tmin,tmax) in res:
    print('pc',[str(c) for c in e.pc][-2:], 'pows',len(getattr(e,'pows',[])))
    # pow axioms: pow(b,e)=b*pow(b,e-1) for all apps; instantiate also for e-1 apps present
    ax=[]
    pows=getattr(e,'pows',[])
    for b,ex,app in pows:
        ax.append(app>0)
        for b2,ex2,app2 in pows:
            if b.eq(b2): ax.append(z3.Implies(ex==ex2+1, app==b*app2))
            if b.eq(b2): ax.append(z3.Implies(ex==ex2, app==app2))
    print(' p =',z3.simplify(p.t))
    s=z3.Solver(); s.set('timeout',60000); s.add(e.pc+e.side+ax)
    # which branch?
    below = any('T >= TMin' in str(z3.simplify(z3.Not(c))) or 'Not(TMin <= T)' in str(c) for c in e.pc)
    for name,cl in (('e,w identities', None),):
        pass
    # continuity at TMin for the below-branch: substitute T:=TMin
    def at(term,val): return z3.substitute(term,(T.t,val.t))
    if 'pow' in str(p.t):
        bnd = tmin if str(z3.simplify(p.t)).count('TMin')>0 else tmax
        for nm,ext,tab in (('p',p,-(-PF[0](bnd.t))),('dp',dp,PF[1](bnd.t)),('ddp',ddp,PF[2](bnd.t))):
            s.push(); 
            axs=[at(a,bnd) for a in ax]
            s.add(axs); s.add(at(ext.t,bnd)!=tab)
            t=time.time(); r=s.check(); print('  continuity',nm,'at',bnd,r,round(time.time()-t,2)); s.pop()
        # csq = dp/de with de=T*ddp
        s.push(); s.add(csq.t != dp.t/(T.t*ddp.t)); t=time.time(); print('  csq=dp/de',s.check(),round(time.time()-t,2)); s.pop()
