import numpy as np, z3, time, warnings, sys, fractions, builtins
warnings.filterwarnings('ignore')
from sym import *
import sym as S
import WallGo.helpers as H
def symfloat(x):
    if isinstance(x,Sym): return x
    return builtins.float(x)
H.float=symfloat
def run(n,order,deg):
    def main():
        e=Engine.cur
        x,dx,lo,hi=[sym(v) for v in ('x','dx','lo','hi')]
        c=[sym(f'c{k}') for k in range(deg+1)]
        e.side+=[dx.t>0]
        calls=[]
        def f(t):
            t=np.asarray(t); calls.append(t)
            r=0
            for k in range(deg+1): r=r+c[k]*t**k
            return r
        res=H.derivative(f,x,n=n,order=order,bounds=(lo,hi),dx=dx)
        ex=0
        for k in range(n,deg+1):
            coef=1
            for j in range(n): coef*= (k-j)
            ex=ex+c[k]*coef*x**(k-n)
        return res,ex,calls,(x,dx,lo,hi)
    res=explore(main,maxpaths=100)
    tot=0
    for e,(r,ex,calls,(x,dx,lo,hi)) in res:
        r=r.item() if isinstance(r,np.ndarray) else r
        s=z3.Solver(); s.set('timeout',60000)
        for cc in e.pc+e.side: s.add(cc)
        s.push(); s.add(r.t!=ex.t); t=time.time(); v1=s.check(); t1=time.time()-t; s.pop()
        # in-bounds
        pts=[p for cl in calls for p in np.ravel(cl)]
        s.push(); s.add(z3.Or([z3.Or(p.t<lo.t,p.t>hi.t) for p in pts])); t=time.time(); v2=s.check(); t2=time.time()-t
        m=s.model() if str(v2)=='sat' else None
        s.pop()
        print(f'n={n} order={order} deg={deg} path pc={[str(z3.simplify(c)) for c in e.pc][:8]}.. exact={v1} {t1:.2f}s inbounds={v2} {t2:.2f}s', m if m is not None else '')
run(1,4,3); run(1,2,1); run(2,4,4); run(2,2,2)
