import z3,time
x,h=z3.Reals('x h'); c=z3.Reals('c0 c1 c2 c3 c4')
def pw(t,k):
    r=z3.RealVal(1)
    for _ in range(k): r=r*t
    return r
def f(t): return sum(c[k]*pw(t,k) for k in range(5))
co=[11,-20,6,4,-1]; pos=[-1,0,1,2,3]
num=sum(co[j]*f(x+pos[j]*h) for j in range(5))
ex=sum(c[k]*k*(k-1)*pw(x,k-2) for k in range(2,5))
for nm,claim in (('div',num/12/(h*h)!=ex),('cleared',num!=12*h*h*ex)):
    s=z3.Solver(); s.set('timeout',60000); s.add(h>0, claim)
    t=time.time(); print(nm,s.check(),round(time.time()-t,2))
