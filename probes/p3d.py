import z3,time
x,r,a,s,c=z3.Reals('x r a s c')
side=[s>0,s*s==a*a+(x-r)*(x-r),c>0,c*c==a*a+(1-r)*(1-r),x>-1,x<1,r>0,r<1,a>0]
u=(1-x+s)/c; du=(-1+(x-r)/s)/c
lhs=du/(1-u*u); rhs=c/(2*s*(1-x))
for nm,mk in (('default',lambda:z3.Solver()),('nlsat',lambda:z3.Tactic('qfnra-nlsat').solver())):
    S=mk(); S.set('timeout',60000); S.add(side); S.add(lhs!=rhs)
    t=time.time(); print(nm,S.check(),round(time.time()-t,2))
# cleared denominators version
S=z3.Solver(); S.set('timeout',60000); S.add(side)
# du*(2 s (1-x)) c^2 == c * (c^2 - (1-x+s)^2)*... do by hand: lhs = N1/D1
N1=(-s+(x-r))*c*c ; D1=s*c*(c*c-(1-x+s)*(1-x+s))
S.add(N1*(2*s*(1-x))!=c*D1)
t=time.time(); print('cleared',S.check(),round(time.time()-t,2))
