import numpy as np, z3, time, warnings, sys, fractions
warnings.filterwarnings('ignore')
from sym import *
import sym as S
from WallGo import Grid3Scales
exec(open('p3.py').read().split("def main():")[0].split("from WallGo import Grid3Scales")[1])
def main():
    e=Engine.cur
    L,r,tin,tout,sm,wc=[sym(n) for n in ('L','r','tin','tout','sm','wc')]
    g=Grid3Scales.__new__(Grid3Scales)
    g.momentumFalloffT=1.0
    g._updateParameters(tin,tout,L,r,sm,wc)
    x=sym('x')
    J,_,_=g.compactificationDerivatives(x,np.array(0.0),np.array(0.0))
    J0,_,_=g.compactificationDerivatives(np.array(0.0),np.array(0.0),np.array(0.0))
    z0,_,_=g.decompactify(np.array(0.0),np.array(0.0),np.array(0.0))
    return J,J0,z0,x,(L,r,wc,sm)
res=explore(main,maxpaths=50)
print('paths',len(res))
for e,(J,J0,z0,x,(L,r,wc,sm)) in res:
    print('side',len(e.side),'pc',[str(c) for c in e.pc])
    for name,extra in (('monotone',[x.t>-1,x.t<1,J.t<=0]),('slope0',[J0.t!=L.t/r.t]),('center',[z0.t!=wc.t]),('monotone_sm<1/2',[x.t>-1,x.t<1,sm.t<0.5,J.t<=0])):
        s=z3.Solver(); s.set('timeout',120000)
        for c in e.pc+e.side+extra: s.add(c)
        t=time.time(); r_=s.check(); print(name,r_,round(time.time()-t,2)); sys.stdout.flush()
        if str(r_)=='sat': print({str(d):s.model()[d] for d in s.model().decls() if 'sqrt' not in str(d)})
