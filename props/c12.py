"""C12 -- the Boltzmann solution reflects the physics, not the discretisation choices.

`BoltzmannSolver.buildLinearEquations` (both derivative modes), `setBackground` and
`BoltzmannBackground.boostToPlasmaFrame` run on
 (a) background profiles T(chi), v(chi), m^2(chi) that are polynomials of degree <= 2 with
     symbolic coefficients: the three derivative arrays the code differentiates (exposed by
     the WALLGO_VERIF hook) must each equal the exact derivative of *its own* profile at the
     interior nodes -- spectral and finite-difference (acc=2) derivatives are exact on that
     class, so this pins which profile each array differentiates and gives "homogeneous
     background => vanishing source" (all three arrays vanish, and the source is a sum of
     terms each carrying one of them as a factor);
 (b) a concrete smooth background and a *symbolic collision tensor*: for all four basis
     pairs the assembled operator equals the Cardinal/Cardinal operator composed with the
     basis matrices, and the source is the same -- so the solution is the same function on
     phase space provided the dense solve is exact (QF_LRA in the tensor entries).
"""
import copy
import types

import numpy as np
import z3

import WallGo.boltzmann as BZ
import WallGo.polynomial as PM
import WallGo.collisionArray as CA
from WallGo.collisionArray import CollisionArray
from WallGo.containers import BoltzmannBackground
from WallGo.fields import Fields
from WallGo.grid import Grid
from WallGo.polynomial import Polynomial

from symx import core, npx
from symx.core import AND, Cond, Sym, close, eq
from symx.harness import HarnessDef, bare

EXPLANATION = __doc__
BOUNDS = {"grids": "(M,N) in {(3,3),(4,3),(5,3)} quick; up to (8,5) thorough", "particles": "1-2",
          "profiles": "degree <= 2 polynomials in chi, symbolic coefficients (|c|<=1, T>=T0>0)",
          "collision tensor": "all entries symbolic in [-1,1]"}
OUTSIDE = ["np.linalg.solve residual / conditioning", "convergence of finite-difference to "
           "spectral derivatives for non-polynomial profiles as M grows (numerical)",
           "the Boltzmann factor f_eq' (stubbed by an uninterpreted function in (a))"]
ASSUMPTIONS = ["findiff matrices are computed natively on the concrete compact nodes and "
               "enter as exact rationals", "tolerance 1e-8 relative to coefficient bound"]
TOL = 1e-8


class DenseMat:
    """dense stand-in for the scipy sparse matrix returned by findiff (object-array safe)"""

    def __init__(self, a):
        self.a = np.asarray(a)

    def __matmul__(self, other):
        other = np.asarray(other)
        out = np.empty(self.a.shape[0], dtype=object)
        for i in range(self.a.shape[0]):
            s = 0.0
            for j in range(self.a.shape[1]):
                if self.a[i, j] != 0:
                    s = s + float(self.a[i, j]) * other[j]
            out[i] = s
        return out

    def toarray(self):
        return self.a


class FindiffProxy:
    def __init__(self, real):
        self.real = real

    def FinDiff(self, *a, **k):
        op = self.real.FinDiff(*a, **k)
        return types.SimpleNamespace(matrix=lambda shape: DenseMat(op.matrix(shape).toarray()))


def particles(n, const_mass=False):
    out = []
    for k in range(n):
        a, b = [(0.25, 1.5), (2.0, 0.5)][k]
        out.append(types.SimpleNamespace(
            msqVacuum=(lambda f, a=a, b=b: a + b * np.asarray(f.getField(0))),
            statistics=["Fermion", "Boson"][k], totalDOFs=[12, 6][k], name=["top", "W"][k]))
    return out


def h_derivatives(h, M, N, mode, nparticles):
    h.patch(BZ, float=npx.symfloat, np=npx.NP())
    h.patch_numeric(PM)
    if mode == "Finite Difference":
        h.patch(BZ, findiff=FindiffProxy(BZ.findiff))
    dfe = z3.Function("dfeq", core.R, core.R)

    def fake_dfeq(x, statistics):
        x = np.asarray(x)
        if x.dtype != object:
            return -1 / (np.exp(x) - 2 * statistics + np.exp(-x))
        out = np.empty(x.shape, dtype=object)
        for idx in np.ndindex(*x.shape):
            out[idx] = Sym(core.cur().app(dfe, core.toz3(x[idx])))
        return out
    h.patch(BZ.BoltzmannSolver, _dfeq=staticmethod(fake_dfeq))
    grid = Grid(M, N, 1.0, 1.0)
    bs = BZ.BoltzmannSolver(grid, basisM="Cardinal", basisN="Cardinal", derivatives=mode)
    bs.offEqParticles = particles(nparticles)
    n = N - 1
    bs.collisionArray = np.zeros((nparticles, n, n, nparticles, n, n))
    chi = np.array([-1.0] + list(grid.chiValues) + [1.0])
    t = [h.real("t0", 1.0, 3.0, default=2.0), h.real("t1", -0.4, 0.4, default=0.2), h.real("t2", -0.4, 0.4, default=-0.1)]
    v = [h.real("v0", -0.5, 0.5, default=-0.3), h.real("v1", -0.2, 0.2, default=0.05), h.real("v2", -0.2, 0.2, default=0.1)]
    f = [h.real("f0", 0.5, 1.5, default=1.0), h.real("f1", -0.4, 0.4, default=0.3), h.real("f2", -0.4, 0.4, default=0.1)]

    def prof(c):
        return np.array([c[0] + c[1] * x + c[2] * x * x for x in chi], dtype=object if h.symbolic else float)

    def dprof(c, x):
        return c[1] + 2 * c[2] * x
    bg = types.SimpleNamespace(
        temperatureProfile=prof(t), velocityProfile=prof(v),
        fieldProfiles=Fields.castFromNumpy(prof(f)[:, None]), velocityWall=h.real("vwall", -0.9, 0.9, default=0.4))
    bs.background = bg
    bs.buildLinearEquations()
    dT, dv, dm = bs._verifDerivatives
    dT, dv, dm = np.asarray(dT), np.asarray(dv), np.asarray(dm)
    h.prove("derivative array shapes", Cond(b=dT.shape == (1, M - 1, 1, 1) and dv.shape == (1, M - 1, 1, 1)
                                            and dm.shape == (nparticles, M - 1, 1, 1)))
    for i, x in enumerate(grid.chiValues):
        x = float(x)
        h.prove_close(f"dT/dchi differentiates the temperature profile (node {i})", dT[0, i, 0, 0],
                      dprof(t, x), rtol=0, atol=TOL * M * M)
        h.prove_close(f"dv/dchi differentiates the velocity profile (node {i})", dv[0, i, 0, 0],
                      dprof(v, x), rtol=0, atol=TOL * M * M)
        for p in range(nparticles):
            a, b = [(0.25, 1.5), (2.0, 0.5)][p]
            h.prove_close(f"dm^2/dchi differentiates the mass profile (particle {p}, node {i})",
                          dm[p, i, 0, 0], b * dprof(f, x), rtol=0, atol=TOL * M * M * 4)
    h.observe("dT", dT[0, :, 0, 0])
    h.observe("dv", dv[0, :, 0, 0])


def _basis_matrix(grid, basis, direction):
    p = Polynomial(np.zeros(len(grid.getCompactCoordinates(False, direction))), grid, "Cardinal", direction, False)
    return np.asarray(p.matrix(basis, direction), dtype=float)


def h_basis(h, M, N, basisM, basisN, nparticles):
    h.patch_numeric(BZ)
    h.patch_numeric(PM)
    h.patch_numeric(CA)
    grid = Grid(M, N, 1.0, 1.0)
    parts = particles(nparticles)
    n = N - 1
    C = h.reals("C", (nparticles, n, n, nparticles, n, n), -1, 1, strict=False)
    chi = np.array([-1.0] + list(grid.chiValues) + [1.0])
    bg = types.SimpleNamespace(
        temperatureProfile=2.0 + 0.3 * np.tanh(chi), velocityProfile=-0.3 + 0.1 * chi**3,
        fieldProfiles=Fields.castFromNumpy((1.0 + 0.5 * np.tanh(2 * chi))[:, None]), velocityWall=0.35)

    def build(bM, bN, coll):
        bs = BZ.BoltzmannSolver(grid, basisM=bM, basisN=bN, derivatives="Spectral")
        bs.offEqParticles = parts
        bs.background = bg
        bs.collisionArray = coll
        return bs.buildLinearEquations()

    opC, srcC, _, _ = build("Cardinal", "Cardinal", C)
    # the collision array in the requested momentum basis, through the real changeBasis
    ca = CollisionArray.newFromPolynomial(Polynomial(
        C.copy(), grid, ("Array", "Cardinal", "Cardinal", "Array", "Cardinal", "Cardinal"),
        CollisionArray.AXIS_TYPES, endpoints=False), parts)
    ca.changeBasis(basisN)
    opB, srcB, _, _ = build(basisM, basisN, ca.polynomialData.coefficients)
    h.prove_all_close("source independent of the basis", srcB, srcC, rtol=0, atol=TOL)
    Tchi = _basis_matrix(grid, basisM, "z")
    Trz = _basis_matrix(grid, basisN, "pz")
    Trp = _basis_matrix(grid, basisN, "pp")
    # K[(i,j,k),(a,b,c)] = Tchi[i,a] Trz[j,b] Trp[k,c], block diagonal in the particle index
    K1 = np.kron(np.kron(Tchi, Trz), Trp)
    size1 = K1.shape[0]
    total = nparticles * size1
    bound = float(np.max(np.abs(K1))) * size1 * 50
    for r in range(total):
        for pb in range(nparticles):
            for c in range(size1):
                want = 0.0
                for m in range(size1):
                    w = K1[m, c]
                    if w != 0.0:
                        want = want + opC[r, pb * size1 + m] * float(w)
                h.prove_close("operator(basis) = operator(Cardinal) x basis matrices", opB[r, pb * size1 + c],
                              want, rtol=0, atol=TOL * bound)


def h_fd_twin(h, nparticles, stored):
    """EOM.getBoltzmannFiniteDifference builds a finite-difference twin of the spectral solver: the
    twin is in the Cardinal basis with the same collision operator, and the spectral solver it was
    made from -- its collision data, their basis label, its own settings -- is left exactly as it
    was (it is used again for every later pressure evaluation)."""
    import WallGo.equationOfMotion as EOMM
    h.patch_numeric(BZ)
    h.patch_numeric(PM)
    h.patch_numeric(CA)
    grid = Grid(3, 3, 1.0, 1.0)
    parts = particles(nparticles)
    n = 2
    C = h.reals("C", (nparticles, n, n, nparticles, n, n), -1, 1, strict=False)
    layout = ("Array", "Cardinal", "Cardinal", "Array", stored, stored)
    ca = CollisionArray.newFromPolynomial(Polynomial(C.copy(), grid, layout, CollisionArray.AXIS_TYPES,
                                                     endpoints=False), parts)
    bs = BZ.BoltzmannSolver(grid, basisM="Cardinal", basisN=stored, derivatives="Spectral")
    bs.offEqParticles = parts
    bs.collisionArray = ca
    h.patch_always(BZ.BoltzmannSolver, getDeltas=lambda self: ("deltas of", self))
    eom = bare(EOMM.EOM)
    eom.boltzmannSolver = bs
    tag, fd = eom.getBoltzmannFiniteDifference()
    h.prove("the twin is another object with finite-difference derivatives in the Cardinal basis", Cond(
        b=fd is not bs and fd.derivatives == "Finite Difference" and fd.basisN == "Cardinal"
        and fd.basisM == "Cardinal" and fd.collisionArray.getBasisType() == "Cardinal"
        and tuple(fd.collisionArray.polynomialData.basis) == ("Array", "Cardinal", "Cardinal", "Array", "Cardinal", "Cardinal")))
    h.prove("the spectral solver keeps its settings and its collision array object", Cond(
        b=bs.derivatives == "Spectral" and bs.basisN == stored and bs.basisM == "Cardinal" and bs.collisionArray is ca))
    h.prove("the spectral solver's collision data keep their basis labels", Cond(
        b=ca.getBasisType() == stored and tuple(ca.polynomialData.basis) == layout))
    h.prove_all_eq("the spectral solver's collision data are untouched", np.asarray(ca.polynomialData.coefficients), C)
    ref = CollisionArray.newFromPolynomial(Polynomial(C.copy(), grid, layout, CollisionArray.AXIS_TYPES,
                                                      endpoints=False), parts)
    ref.changeBasis("Cardinal")
    h.prove_all_close("the twin's collision data = the same operator in the Cardinal basis",
                      np.asarray(fd.collisionArray.polynomialData.coefficients),
                      np.asarray(ref.polynomialData.coefficients), rtol=0, atol=TOL)


def h_weak_background(h, eps, units):
    """'for any background the returned deviation satisfies the assembled linear system': ground
    check with the real dense solve on a background whose variation (eps) or whose unit system makes
    the source tiny in absolute terms -- the solution is still the solution (residual at rounding
    level relative to the source), it scales linearly with eps, and it is not cut off to zero."""
    import numpy.linalg as la
    grid = Grid(5, 3, 1.0 / units, 1.0 * units)
    parts = [types.SimpleNamespace(
        msqVacuum=(lambda f: units * units * (0.25 + 1.5 * (np.asarray(f.getField(0)) / units) ** 2)),
        statistics="Fermion", totalDOFs=12, name="top")]
    rng = np.random.default_rng(7)
    n = 2
    chi = np.array([-1.0] + list(grid.chiValues) + [1.0])

    def solve(e):
        bg = BoltzmannBackground(
            0.0, -0.3 + e * 0.1 * chi**3, Fields.castFromNumpy((units * (1.0 + e * 0.5 * np.tanh(2 * chi)))[:, None]),
            units * (2.0 + e * 0.3 * np.tanh(chi)))
        bs = BZ.BoltzmannSolver(grid, basisM="Cardinal", basisN="Cardinal", derivatives="Spectral")
        bs.offEqParticles = parts
        bs.setBackground(bg)
        C = rng.normal(size=(1, n, n, 1, n, n)) * units
        C[0, :, :, 0, :, :] += 3.0 * units * np.eye(n * n).reshape(n, n, n, n)
        bs.collisionArray = CollisionArray.newFromPolynomial(Polynomial(
            C, grid, ("Array", "Cardinal", "Cardinal", "Array", "Cardinal", "Cardinal"),
            CollisionArray.AXIS_TYPES, endpoints=False), parts)
        op, src, _, _ = bs.buildLinearEquations()
        x = np.asarray(bs.solveBoltzmannEquations(), dtype=float)
        return np.asarray(op, dtype=float), np.asarray(src, dtype=float), x
    rng = np.random.default_rng(7)
    op, src, x = solve(eps)
    smax = float(np.max(np.abs(src)))
    res = float(np.max(np.abs(op @ x.ravel() - src.ravel())))
    h.prove("the background is inhomogeneous: the source does not vanish", Cond(b=smax > 0))
    h.prove("returned deviation solves the assembled system (residual at rounding level relative to the source)",
            Cond(b=res <= 1e-7 * smax))
    h.prove("the deviation is not cut off to zero", Cond(b=float(np.max(np.abs(x))) > 0))
    rng = np.random.default_rng(7)
    op2, src2, x2 = solve(2 * eps)
    if eps <= 1e-6:
        h.prove("linear response: doubling a weak variation doubles the deviation",
                Cond(b=bool(np.max(np.abs(x2 - 2 * x)) <= 1e-3 * np.max(np.abs(x2)) + 1e-300)))


def h_background(h):
    """setBackground works on a deep copy and boosts the wall-frame background to the plasma
    frame: velocityWall = -velocityMid, profile boosted element-wise."""
    import WallGo.containers as CT
    import WallGo.helpers as HL
    grid = Grid(3, 3, 1.0, 1.0)
    bs = BZ.BoltzmannSolver(grid)
    vmid = h.real("vmid", -0.95, 0.95, default=-0.4)
    vs = h.reals("v", (4,), -0.95, 0.95)
    bg = BoltzmannBackground(vmid, vs.copy(), Fields.castFromNumpy(np.ones((4, 1))), np.ones(4))
    bs.setBackground(bg)
    h.prove("caller's background untouched", Cond(b=bg.velocityWall == 0 and all(
        (a is b) or (not isinstance(a, Sym) and a == b) for a, b in zip(bg.velocityProfile, vs))))
    h.prove("solver keeps its own copy", Cond(b=bs.background is not bg))
    h.prove_eq("wall velocity in the plasma frame = -velocityMid", bs.background.velocityWall, -vmid)
    for i in range(4):
        h.prove_eq(f"profile boosted (point {i})", bs.background.velocityProfile[i],
                   (vs[i] - vmid) / (1 - vs[i] * vmid))


_AQ = [dict(M=M, N=3, mode=m, nparticles=p) for (M, p) in ((3, 1), (4, 2), (5, 1))
       for m in ("Spectral", "Finite Difference")]
_AT = _AQ + [dict(M=M, N=5, mode=m, nparticles=2) for M in (6, 8) for m in ("Spectral", "Finite Difference")]
_BQ = [dict(M=3, N=3, basisM=bm, basisN=bn, nparticles=p) for bm in ("Cardinal", "Chebyshev")
       for bn in ("Cardinal", "Chebyshev") for p in (1,)] + [dict(M=3, N=3, basisM="Chebyshev", basisN="Chebyshev", nparticles=2)]
_BT = _BQ + [dict(M=4, N=3, basisM=bm, basisN=bn, nparticles=2) for bm in ("Cardinal", "Chebyshev")
             for bn in ("Cardinal", "Chebyshev")] + [dict(M=3, N=5, basisM="Chebyshev", basisN="Chebyshev", nparticles=1)]

from props.c13 import h_deltas as _h_deltas

HARNESSES = [
    HarnessDef("moments-basis-independence", _h_deltas,
               [dict(M=3, N=3, T0=1.0, basisM="Chebyshev", basisN="Chebyshev", nparticles=2),
                dict(M=4, N=3, T0=1.0, basisM="Chebyshev", basisN="Cardinal", nparticles=1),
                dict(M=3, N=3, T0=1.0, basisM="Cardinal", basisN="Chebyshev", nparticles=1)],
               max_paths=4, timeout_s=120, encodes=[BZ.BoltzmannSolver.getDeltas], random_validation=1),
    HarnessDef("finite-difference-twin", h_fd_twin, [dict(nparticles=1, stored="Chebyshev"), dict(nparticles=2, stored="Cardinal")],
               [dict(nparticles=p, stored=b) for p in (1, 2) for b in ("Chebyshev", "Cardinal")], max_paths=4, timeout_s=60,
               encodes=[CollisionArray.changeBasis], random_validation=1),
    HarnessDef("weak-background-still-solved", h_weak_background,
               [dict(eps=1e-9, units=1.0), dict(eps=1e-3, units=1e-5), dict(eps=1e-2, units=1.0)],
               [dict(eps=e, units=u) for e in (1e-10, 1e-9, 1e-6, 1e-2) for u in (1e-5, 1.0, 1e3)], max_paths=2, timeout_s=60,
               encodes=[BZ.BoltzmannSolver.solveBoltzmannEquations], random_validation=0),
    HarnessDef("profile-derivatives", h_derivatives, _AQ, _AT, max_paths=8, timeout_s=60,
               encodes=[BZ.BoltzmannSolver.buildLinearEquations, Polynomial.derivative,
                        Polynomial.derivMatrix], random_validation=1),
    HarnessDef("basis-independence", h_basis, _BQ, _BT, max_paths=4, timeout_s=120,
               encodes=[BZ.BoltzmannSolver.buildLinearEquations, Polynomial.matrix,
                        CollisionArray.changeBasis], random_validation=1),
    HarnessDef("background-copy-and-boost", h_background, [dict()], max_paths=4, timeout_s=30,
               encodes=[BZ.BoltzmannSolver.setBackground, BoltzmannBackground.boostToPlasmaFrame],
               random_validation=2),
]

MANIFEST = {
    "text": "(a) For all degree-<=2 background profiles (symbolic coefficients; QF_LRA) in both "
            "derivative modes, each of the three derivative arrays of buildLinearEquations equals "
            "the exact derivative of its own profile at every interior node (hence a homogeneous "
            "background gives vanishing derivatives and source). (b) For every collision tensor "
            "(symbolic; QF_LRA) and all four basis pairs the assembled operator equals the "
            "Cardinal operator composed with the basis matrices and the source is identical, so "
            "the solution is the same phase-space function up to the dense solve. (c) "
            "setBackground deep-copies and boosts (wall velocity -> -velocityMid)."
            " getBoltzmannFiniteDifference builds a Cardinal-basis twin with the same operator and leaves the spectral solver (collision data, basis labels, settings) untouched."
            " Weak backgrounds (tiny variation or small units) are still solved: residual at rounding level relative to the source, linear response, no cut-off to zero (ground check with the real dense solve).",
    "note": "needs the WALLGO_VERIF hook (derivative arrays); linear solve, f_eq' and "
            "non-polynomial convergence are outside.",
}
