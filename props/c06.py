"""C06 -- matching solutions are physically admissible and correctly classified.

Decided by construction of the returned tuples and by the code's own decisions:
 * Jouguet velocity: the closure `vpDerivNum` handed to the root finder is the numerator of
   d(v+^2)/dT- of the very formula used to return vJ (term differentiation with the EOS
   derivative rules dp/dT = w/T, de/dT = w/(T cs^2)); at a zero of it the detonation has
   v-^2 = cs-^2 (Chapman-Jouguet); the returned vJ is evaluated at that zero;
 * template model: the closed-form vJ is the v+ of a detonation with v- = c_b, and
   `detonationVAndT` returns the junction root with v- >= c_b (weak branch) satisfying the
   template junction relation;
 * `fastestDeflag` / `slowestDeton`: with the matching temperatures arbitrary functions of
   the wall velocity, the advertised limit is vJ iff both end temperatures are inside their
   ranges just below vJ, else the smaller of the two range-limited velocities, and each
   `doesPhaseTraceLimitvmax` flag is set iff that root exists and the range end is not a true
   end of the phase; the detonation twin likewise;
 * `findMatching` classifies by the side of vJ; `minVelocity`/`strongestShock` sentinel.
"""
import types

import numpy as np
import z3

import WallGo.hydrodynamics as HY
import WallGo.hydrodynamicsTemplateModel as HT
from WallGo.exceptions import WallGoError

from symx import axioms, core, diff, npx
from symx.core import AND, OR, NOT, Cond, Sym, eq, ge, gt, le, lt, ne
from symx.harness import HarnessDef, bare
from props.hydrokit import ScipyStubs, tolerance_claims, replaying
from props.c02 import h_deflag as _h_deflag, make_hydro, arctan_axioms

EXPLANATION = __doc__
BOUNDS = {"paths": "<= 400 per harness", "Jouguet bracketing loop": "unrolled 2"}
OUTSIDE = ["0<v<1, v+<v-, T+>Tn, 'weak not strong detonation' for a general EOS and 'every "
           "slower wall has its temperatures in range': these need monotonicity/convexity of "
           "the EOS along the solution branch and are not decided",
           "convergence of the root finders"]
ASSUMPTIONS = ["EOS derivative relations dp/dT = w/T, de/dT = w/(T cs^2) (thermodynamic "
               "consistency, C10)"]


def _eos_rules():
    R = core.R
    WL, CL, PL = (z3.Function(n, R, R) for n in ("WL", "CL", "PL"))
    app = lambda f, a: core.cur().app(f, a)
    return {
        "PL": lambda ch, i: app(WL, ch[0]) / ch[0],
        "WL": lambda ch, i: app(WL, ch[0]) / (ch[0] * app(CL, ch[0])) + app(WL, ch[0]) / ch[0],
    }


class _Captured(Exception):
    pass


def h_jouguet(h, part, cut=False):
    hy, th, st = make_hydro(h, stubs=ScipyStubs(h, nondet_converged=False))
    closure = {}
    real_rs = st.root_scalar
    nloop = {"n": 0}

    def rs(f, *a, **k):
        closure["f"] = f
        if part == "closure":
            raise _Captured()
        return real_rs(f, *a, **k)
    HY.root_scalar = rs
    # cut: the tabulated low-T range ends below the Chapman-Jouguet temperature (ranges that cut the
    # window short are part of the quantifier); the default point of this case is such a range
    hy.TMaxLowT = h.real("TMaxLowT", 0.01, 1e4, default=1.02 if cut else 3.0)
    Tn = hy.Tnucl
    pH, eH = th.pHighT(Tn), th.eHighT(Tn)
    if part == "closure":
        # make the bracketing loop trivial: 2 Tn >= the hydro window end
        h.assume(le(hy.TMaxHydro, 2 * Tn), "closure capture: window end below 2 Tn (bracketing loop not entered)")
        try:
            hy.findJouguetVelocity()
        except _Captured:
            pass
        if h.mode == "fold":
            return
        if h.mode != "sym":
            # plain floats: finite-difference version on the default (bag-like) EOS; not
            # meaningful when replaying a solver model (UF values only at the model's points)
            if any(k.startswith(("PL@", "WL@", "CL@", "PH@", "WH@")) for k in h.values):
                return
            x = 1.3 * float(Tn)
            def vp2(t):
                pl, el = th.pLowT(t), th.eLowT(t)
                return (pH - pl) * (pH + el) / ((eH - el) * (eH + pl))
            hh = 1e-6 * x
            fd = (vp2(x + hh) - vp2(x - hh)) / (2 * hh)
            den = (eH - th.eLowT(x)) * (eH + th.pLowT(x))
            got = closure["f"](x)
            h.prove("the function whose zero is sought is the numerator of d(v+^2)/dT-", None,
                    conc=lambda: abs(got - fd * den * den) <= 1e-5 * (abs(got) + abs(fd * den * den)))
            return
        x = h.real("tm_probe", 0.01, 1e4)
        pLx, eLx = th.pLowT(x), th.eLowT(x)
        f = (pH - pLx) * (pH + eLx) / ((eH - eLx) * (eH + pLx))
        d = diff.diff(f, x, _eos_rules())
        den = (eH - eLx) * (eH + pLx)
        h.assume(ne(den, 0))
        got = closure["f"](x)
        h.prove("the function whose zero is sought is the numerator of d(v+^2)/dT-",
                eq(got, d * den * den))
        # Chapman-Jouguet: at a zero of that numerator the detonation has v-^2 = cs-^2
        h.assume(AND(gt(pH - pLx, 0), gt(eH - eLx, 0), gt(pH + eLx, 0), gt(eH + pLx, 0)),
                 "first-order transition: p+>p-, e+>e- and positive mixed enthalpies")
        vm2 = (pH - pLx) * (eH + pLx) / ((eH - eLx) * (eLx + pH))
        h.prove("Chapman-Jouguet: at a zero of it, v-^2 equals the sound speed behind the wall",
                core.IMPLIES(eq(got, 0), eq(vm2, th.csqLowT(x))))
        return
    h.assume(le(hy.TMaxHydro, 2 * Tn))
    try:
        vJ = hy.findJouguetVelocity()
    except WallGoError:
        # (Hydrodynamics.__init__ swallows this error and silently substitutes the template model's
        # approximate vJ.)  The root-finder stub always converges: the Chapman-Jouguet root exists, so
        # there is nothing to give up on -- wherever it lies relative to the tabulated low-T range
        if h.symbolic or any(k.startswith("root#") for k in h.values) or (h.mode == "conc" and h.use_defaults):
            # (plain floats at the default point: the real scipy converges there on the healthy tree)
            h.prove("a converged Chapman-Jouguet root is used, not discarded in favour of the template value",
                    Cond(b=False))
        return
    vJ = core.unbox(np.asarray(vJ))
    tm = st.last_root
    pL, eL = th.pLowT(tm), th.eLowT(tm)
    h.assume(AND(gt(pH - pL, 0), gt(eH - eL, 0), gt(pH + eL, 0), gt(eH + pL, 0)))
    vp2 = (pH - pL) * (pH + eL) / ((eH - eL) * (eH + pL))
    h.prove_eq("vJ^2 is the junction v+^2 at the root temperature", vJ * vJ, vp2, conc_rtol=1e-7)
    if st.calls[-1][1] == "brentq":
        h.prove("bracketed root lies between Tn and the window end", AND(ge(tm, Tn), le(tm, hy.TMaxHydro)))
    h.observe("vJ", vJ)


def h_template_vj(h):
    h.patch(HT, float=npx.symfloat, np=npx.NP())
    t = bare(HT.HydrodynamicsTemplateModel)
    t.cb2 = h.real("cb2", 0.05, 0.5, default=0.3)
    t.cb = core.sym_sqrt(t.cb2) if h.symbolic else t.cb2 ** 0.5
    t.alN = h.real("alN", 1e-3, 3, default=0.1)
    vJ = t.findJouguetVelocity()
    # detonation at vJ: v+ = vJ, alpha+ = alN, v- = cb on the detonation branch of getVp
    vp = t.getVp(t.cb, t.alN, branch=1)
    h.prove_eq("closed-form vJ is the v+ of the detonation with v- = c_b", vJ, vp, conc_rtol=1e-9)
    h.prove("cb < vJ < 1", AND(gt(vJ, t.cb), lt(vJ, 1)))
    h.observe("vJ", vJ)


def h_template_deton(h):
    h.patch(HT, float=npx.symfloat, np=npx.NP(), pow=core.sym_pow)
    t = bare(HT.HydrodynamicsTemplateModel)
    t.cb2 = h.real("cb2", 0.05, 0.5, default=0.3)
    t.alN = h.real("alN", 1e-3, 0.3, default=0.05)
    t.Tnucl = h.real("Tn", 0.01, 1e3, default=1.0)
    t._findTm = lambda vm, vp, Tp: Tp  # temperature relation is C15's subject
    vw = h.real("vw", 0.05, 0.999, default=0.9)
    part = vw * vw + t.cb2 * (1 - 3 * (1 - vw * vw) * t.alN)
    h.assume(ge(part * part, 4 * t.cb2 * vw * vw), "vw at or above the template Jouguet velocity (real root)")
    vp, vm, Tp, Tm = t.detonationVAndT(vw)
    h.prove_eq("detonation: v+ = vw", vp, vw)
    h.prove_eq("detonation: T+ = Tn", Tp, t.Tnucl)
    # junction relation of the template model: v+ v- ... written as the quadratic in v-
    h.prove_eq("v- solves  v-^2 - part/v+ v- + cb^2 = 0", vm * vm * vp - part * vm + t.cb2 * vp, 0.0,
               conc_scale=None if h.symbolic else 1.0)
    h.prove("weak branch: v-^2 >= cb^2", ge(vm * vm, t.cb2))
    h.observe("vm", vm)


def h_fastest_deflag(h):
    hy, th, st = make_hydro(h, stubs=None)
    st.bad_bracket = "raise"
    hy.vJ = h.real("vJ", 0.05, 0.99, default=0.7)
    hy.vMin = h.real("vMin", 1e-3, 0.9, default=0.01)
    h.assume(lt(hy.vMin + 2e-3, hy.vJ))
    TpF = h.ufun("TpOfVw", lambda v: 1.0 + 0.5 * v)
    TmF = h.ufun("TmOfVw", lambda v: 0.9 + 0.6 * v)
    hy.findMatching = lambda v: (None, None, TpF(v), TmF(v))
    hy.TMaxLowT = h.real("TMaxLowT", 0.01, 1e4, default=1.2)
    hy.TMaxHighT = h.real("TMaxHighT", 0.01, 1e4, default=1.25)
    trueEndLow, trueEndHigh = h.flag("lowTrueEnd"), h.flag("highTrueEnd")
    th.freeEnergyLow.maxPossibleTemperature = [hy.TMaxLowT, trueEndLow]
    th.freeEnergyHigh.maxPossibleTemperature = [hy.TMaxHighT, trueEndHigh]
    # pre-state of a fresh Hydrodynamics object (flags are only ever written by this function,
    # and the range ends do not change between calls)
    hy.doesPhaseTraceLimitvmax = [False, False]
    stale = list(hy.doesPhaseTraceLimitvmax)
    out = hy.fastestDeflag()
    tolerance_claims(h, st, hy, "fastestDeflag: ")
    vtop = hy.vJ - hy.vBracketLow
    inside_at_top = AND(lt(TmF(vtop), hy.TMaxLowT), lt(TpF(vtop), hy.TMaxHighT))
    roots = [c for c in st.calls if c[0] == "root_scalar"]
    if not roots:
        h.prove("vJ is advertised only if both temperatures are inside their ranges just below vJ", inside_at_top)
        h.prove_eq("advertised fastest deflagration = vJ", out, hy.vJ)
        return
    h.prove("range-limited search only if a temperature leaves its range just below vJ", NOT(inside_at_top))
    # the two candidate velocities: zero of Tm - TMaxLow / Tp - TMaxHigh in the window, else vJ
    lo, hi = hy.vMin + hy.vBracketLow, vtop
    brL = le((TmF(lo) - hy.TMaxLowT) * (TmF(hi) - hy.TMaxLowT), 0)
    brH = le((TpF(lo) - hy.TMaxHighT) * (TpF(hi) - hy.TMaxHighT), 0)
    vals = [Sym(t) if t is not None else h.values[n] for n, t, l, u in h.inputs if n.startswith("root#")]
    k = 0
    cand = []
    for which, br, F, lim in (("low", brL, TmF, hy.TMaxLowT), ("high", brH, TpF, hy.TMaxHighT)):
        found = _decided(br)
        if found:
            r = vals[k]
            k += 1
            h.prove(f"{which}-T candidate is where that temperature reaches its range end", eq(F(r), lim))
            cand.append(r)
        else:
            cand.append(hy.vJ)
    h.prove("advertised fastest deflagration = the smaller of the two range-limited velocities",
            AND(le(out, cand[0]), le(out, cand[1]), OR(eq(out, cand[0]), eq(out, cand[1]))))
    fl = hy.doesPhaseTraceLimitvmax
    h.prove("low-T flag set iff its root exists and the range end is not a true end of the phase",
            Cond(b=fl[1] == (_decided(brL) and not trueEndLow)))
    h.prove("high-T flag set iff its root exists and the range end is not a true end of the phase",
            Cond(b=fl[0] == (_decided(brH) and not trueEndHigh)))


def _decided(c):
    """truth value of a condition on the current path (forks if still open)"""
    if c.symbolic:
        return core.cur().branch(c.z)
    return c.b


def h_slowest_deton(h):
    hy, th, st = make_hydro(h, stubs=None)
    st.bad_bracket = "raise"
    hy.vJ = h.real("vJ", 0.05, 0.98, default=0.7)
    TmF = h.ufun("TmOfVw", lambda v: 1.6 - 0.6 * v)
    hy.findMatching = lambda v: (None, None, hy.Tnucl, TmF(v))
    hy.TMaxLowT = h.real("TMaxLowT", 0.01, 1e4, default=1.1)
    out = hy.slowestDeton()
    tolerance_claims(h, st, hy, "slowestDeton: ")
    # documented: "Returns 1 if Tm is above TMaxLowT for vw = 1"
    if _decided(gt(TmF(1), hy.TMaxLowT)):
        h.prove("T- above its range even at vw = 1 => sentinel 1 (no admissible detonation)",
                Cond(b=(not isinstance(out, Sym)) and out == 1))
        return
    if not isinstance(out, Sym) and out == 1 and not [c for c in st.calls if c[0] == "root_scalar"]:
        h.prove("sentinel 1 only if T- exceeds its range even at vw = 1", gt(TmF(1), hy.TMaxLowT))
        return
    roots = [c for c in st.calls if c[0] == "root_scalar"]
    br = le((TmF(hy.vJ + 1e-4) - hy.TMaxLowT) * (TmF(1) - hy.TMaxLowT), 0)
    if _decided(br):
        r = st.last_root
        h.prove("range-limited velocity is where T- reaches its range end", eq(TmF(r), hy.TMaxLowT))
        h.prove("advertised slowest detonation = min(1, that velocity + 0.01)",
                OR(AND(eq(out, r + 0.01), le(r + 0.01, 1)), AND(eq(out, 1), ge(r + 0.01, 1))))
    else:
        h.prove_eq("no range limit in (vJ,1]: vJ is advertised", out, hy.vJ)


def h_classify(h):
    hy, th, st = make_hydro(h)
    hy.vJ = h.real("vJ", 0.05, 0.99, default=0.7)
    vw = h.real("vw", 0.01, 0.99, default=0.8)
    called = []
    hy.matchDeton = lambda v: called.append("deton") or ("d",)
    hy.matchDeflagOrHyb = lambda v, vp=None: called.append("deflag") or (vp, 0.5, 1.0, 1.0)
    hy.solveHydroShock = lambda v, vp, Tp: hy.Tnucl
    try:
        hy.findMatching(vw)
    except Exception:  # noqa: BLE001 - only the first dispatch matters here
        pass
    first = called[0] if called else None
    h.prove("detonation matching iff vw > vJ", Cond(b=(first == "deton") == bool(vw > hy.vJ)))


AX = [arctan_axioms, axioms.pow_axioms]

HARNESSES = [
    HarnessDef("jouguet-general", h_jouguet, [dict(part="closure"), dict(part="result"), dict(part="result", cut=True)], max_paths=60,
               timeout_s=30, axioms=AX, encodes=[HY.Hydrodynamics.findJouguetVelocity],
               random_validation=1, concrete_alarms=False, feas_timeout_ms=200),
    HarnessDef("jouguet-template", h_template_vj, [dict()], max_paths=20, timeout_s=120,
               encodes=[HT.HydrodynamicsTemplateModel.findJouguetVelocity, HT.HydrodynamicsTemplateModel.getVp],
               random_validation=3),
    HarnessDef("template-detonation", h_template_deton, [dict()], max_paths=20, timeout_s=120, axioms=AX,
               encodes=[HT.HydrodynamicsTemplateModel.detonationVAndT], random_validation=3),
    HarnessDef("fastestDeflag", h_fastest_deflag, [dict()], max_paths=600, timeout_s=60, axioms=AX,
               encodes=[HY.Hydrodynamics.fastestDeflag], random_validation=0, concrete_alarms=False),
    HarnessDef("slowestDeton", h_slowest_deton, [dict()], max_paths=200, timeout_s=60, axioms=AX,
               encodes=[HY.Hydrodynamics.slowestDeton], random_validation=0, concrete_alarms=False),
    HarnessDef("classification", h_classify, [dict()], max_paths=50, timeout_s=30, axioms=AX,
               encodes=[HY.Hydrodynamics.findMatching], random_validation=0, concrete_alarms=False),
    # "deflagrations have v- = vw below the sound speed behind the wall, hybrids v- = that sound speed":
    # v-^2 = min(vw^2, cs-^2(T-)) with the sound speed at the RETURNED T- (harness shared with C02)
    HarnessDef("deflagration-hybrid-vminus", _h_deflag, [dict(guess="fixed")], max_paths=600, timeout_s=60, axioms=AX,
               encodes=[HY.Hydrodynamics.matchDeflagOrHyb, HY.Hydrodynamics.vpvmAndvpovm],
               random_validation=2, concrete_alarms=False),
]

MANIFEST = {
    "text": "For every EOS (uninterpreted p, w, cs^2 with their derivative relations): the closure "
            "solved for the Jouguet temperature is exactly the numerator of d(v+^2)/dT- of the "
            "returned formula, its zero gives v-^2 = cs-^2 (Chapman-Jouguet), vJ is evaluated at "
            "that zero; template vJ = v+ of the detonation with v-=c_b; template detonations take "
            "the junction root with v- >= c_b; fastestDeflag / slowestDeton return vJ, the range-"
            "limited velocity (zero of T - TMax of the real closure), or their documented "
            "sentinels exactly under the conditions stated, and set the phase-trace flags iff a "
            "root exists and the range end is not a true end; findMatching dispatches by the side "
            "of vJ; v-^2 = min(vw^2, cs-^2(T-)) with the sound speed at the returned T- (deflagration / "
            "hybrid classification; harness shared with C02). T+=Tn, v+=vw for detonations are proven in C02."
            " A converged Chapman-Jouguet root is used wherever it lies relative to the tabulated low-T range (no silent fall back to the template vJ).",
    "note": "Ordering/causality facts that need EOS convexity are not decided (outside).",
}
