"""C19 -- finite-difference helpers are exact on low-degree polynomials.

The real `WallGo.helpers.derivative/gradient/hessian` and the `EffectivePotential`
derivative wrappers are executed on symbolic x, dx, bounds and polynomial coefficients;
every feasible path is one stencil row the offset arithmetic can select.  For each path z3
shows (NRA, polynomial identity) that the returned value equals the exact derivative of the
generic polynomial of the claimed degree, and that every evaluation point lies inside the
bounds.
"""
import itertools

import numpy as np

import WallGo.helpers as HL
import WallGo.effectivePotential as EP
from WallGo.fields import Fields

from symx import core
from symx.core import AND, Cond, Sym, ge, le, lt, gt
from symx.harness import HarnessDef

EXPLANATION = __doc__
BOUNDS = {
    "derivative": "n in {1,2}, order in {2,4}, bounds in {none, (lo,hi), (0,inf), (-inf,hi)}, "
                  "x scalar and x of shape (2,); x in (-50,50), dx in (1e-8,1e3), "
                  "|coefficients| <= 10; polynomial degree = #stencil points - 1",
    "gradient/hessian": "1..3 variables, input shapes (n,), (2,n), (2,1,n); all single-axis and "
                        "list-axis selections; dx per variable symbolic; generic polynomial of "
                        "total degree <= 4 (gradient order 4), 2 (order 2); hessian: degree <= 5 "
                        "(order 4), 3 (order 2)",
    "paths": "<= 200 per case",
}
OUTSIDE = [
    "float64 rounding, incl. the (x+dx)-x trick (identity over the reals)",
    "domains narrower than span*dx (span = 2,3,4,5 for (n,order) = (1,2),(2,2),(1,4),(2,4)): "
    "there the fixed stencils cannot fit; treated as a precondition",
]
ASSUMPTIONS = ["arithmetic over the reals; table entries lifted to the rationals they round "
               "(k/12, k/48)"]


def _poly1(h, deg):
    c = [h.real(f"c{k}", -10, 10) for k in range(deg + 1)]

    def f(t):
        t = np.asarray(t)
        r = 0.0
        for k in range(deg + 1):
            r = r + c[k] * t**k
        return np.asarray(r)

    def d(x, n):
        r = 0.0
        for k in range(n, deg + 1):
            co = 1
            for j in range(n):
                co *= k - j
            r = r + c[k] * co * x ** (k - n)
        return r

    def scale(x, dx, n):
        # magnitude of the terms summed by the stencil: bound on float rounding in conc mode
        s = 0.0
        for k in range(deg + 1):
            s = s + abs(c[k]) * (abs(x) + 5 * abs(dx)) ** k
        return s / abs(dx) ** n * 50
    return f, d, scale


SPAN = {(1, 2): 2, (2, 2): 3, (1, 4): 4, (2, 4): 5}
NPTS = {(1, 2): 2, (2, 2): 3, (1, 4): 4, (2, 4): 5}


def h_derivative(h, n, order, bnd, shape):
    h.patch_numeric(HL)
    deg = NPTS[(n, order)] - 1
    f, dexact, scale = _poly1(h, deg)
    dx = h.real("dx", 1e-8, 1e3, default=0.01, sample=(0.01, 0.5))
    if shape == 0:
        x = h.real("x", -50, 50)
        xs = [x]
    else:
        xs = [h.real(f"x{i}", -50, 50) for i in range(shape)]
        x = np.array(xs, dtype=object if h.symbolic else float)
    lo = hi = None
    if bnd == "both":
        lo = h.real("lo", -100, 100)
        hi = h.real("hi", -100, 100)
        h.assume(ge(hi - lo, SPAN[(n, order)] * dx), "hi-lo >= span*dx")
        bounds = (lo, hi)
    elif bnd == "lower0":
        lo = 0.0
        bounds = (0, np.inf)
    elif bnd == "upper":
        hi = h.real("hi", -100, 100)
        bounds = (-np.inf, hi)
    else:
        bounds = None
    for xi in xs:
        if lo is not None:
            h.assume(ge(xi, lo))
        if hi is not None:
            h.assume(le(xi, hi))
    calls = []

    def frec(t):
        calls.append(np.asarray(t))
        return f(t)

    res = HL.derivative(frec, x, n=n, order=order, bounds=bounds, dx=dx)
    res = np.asarray(res)
    h.prove("shape", Cond(b=res.shape == np.shape(x)))
    for i, xi in enumerate(xs):
        ri = res[i] if shape else res[()]
        h.prove_eq("exact", ri, dexact(xi, n), conc_scale=scale(xi, dx, n) if not h.symbolic
                   else None, conc_rtol=1e-9)
        h.observe("res", ri)
    pts = [p for c in calls for p in np.ravel(c)]
    conds = []
    for p in pts:
        if lo is not None:
            conds.append(ge(p, lo - (0 if h.symbolic else 1e-12 * (1 + abs(lo)))))
        if hi is not None:
            conds.append(le(p, hi + (0 if h.symbolic else 1e-12 * (1 + abs(hi)))))
    if conds:
        h.prove("in-bounds", AND(*conds))
    # every stencil point is x + j*dx with integer |j| <= span-1 and the stencil contains
    # no duplicated point
    return None


def _monomials(nvar, deg):
    out = []
    for tot in range(deg + 1):
        for e in itertools.product(range(tot + 1), repeat=nvar):
            if sum(e) == tot:
                out.append(e)
    return out


def _polyN(h, nvar, deg):
    mons = _monomials(nvar, deg)
    c = {e: h.real("c_" + "".join(map(str, e)), -10, 10) for e in mons}

    def f(X):
        X = np.asarray(X)
        r = 0.0
        for e in mons:
            term = c[e]
            for v, p in enumerate(e):
                if p:
                    term = term * X[..., v] ** p
            r = r + term
        return np.asarray(r)

    def d(x, wrt):
        """exact partial derivative (wrt: tuple of variable indices) at point x (1-d)."""
        r = 0.0
        for e in mons:
            e2 = list(e)
            co = 1
            ok = True
            for v in wrt:
                if e2[v] == 0:
                    ok = False
                    break
                co *= e2[v]
                e2[v] -= 1
            if not ok:
                continue
            term = c[e] * co
            for v, p in enumerate(e2):
                if p:
                    term = term * x[v] ** p
            r = r + term
        return r

    def scale(x, dxs, nd):
        s = 0.0
        m = max(abs(float(v)) for v in x) + 3 * max(abs(float(v)) for v in dxs)
        for e in mons:
            s += abs(float(c[e])) * m ** sum(e)
        return s / min(abs(float(v)) for v in dxs) ** nd * 50
    return f, d, scale


AXES = {
    1: [None, 0, -1, [0]],
    2: [None, 0, 1, -1, [1, 0], [0, 0]],
    3: [None, 2, [2, 0], [0, 1, 2]],
}


def _axis_list(axis, nvar):
    if axis is None:
        return list(range(nvar))
    if isinstance(axis, int):
        return [axis]
    return list(axis)


def _points(h, shape, nvar):
    full = tuple(shape) + (nvar,)
    return h.reals("x", full, -20, 20)


def h_gradient(h, order, nvar, shape, axis, dxmode):
    h.patch_numeric(HL)
    deg = {2: 2, 4: 4}[order]
    f, dexact, scale = _polyN(h, nvar, deg)
    x = _points(h, shape, nvar)
    if dxmode == "array":
        dx = h.reals("dx", (nvar,), 1e-6, 1e2, sample=(0.01, 0.5))
    else:
        d0 = h.real("dx", 1e-6, 1e2, sample=(0.01, 0.5))
        dx = np.array([d0] * nvar, dtype=object if h.symbolic else float)
    calls = []

    def frec(X):
        calls.append(X)
        return f(X)
    res = np.asarray(HL.gradient(frec, x, order=order, dx=dx, axis=axis))
    ax = _axis_list(axis, nvar)
    h.prove("shape", Cond(b=res.shape == tuple(shape) + (len(ax),)))
    if res.shape != tuple(shape) + (len(ax),):
        return
    for idx in np.ndindex(*shape):
        pt = x[idx]
        for j, a in enumerate(ax):
            sc = None if h.symbolic else scale(pt, dx, 1)
            h.prove_eq("exact", res[idx + (j,)], dexact(pt, (a % nvar,)), conc_scale=sc,
                       conc_rtol=1e-9)
            h.observe("grad", res[idx + (j,)])
    # evaluation points: each differs from its base point along exactly the selected axis
    h.prove("n-evaluations", Cond(b=sum(np.asarray(c).shape[0] for c in calls)
                                  == int(np.prod(shape, dtype=int)) * len(ax) * order))


def h_hessian(h, order, nvar, shape, xaxis, yaxis):
    h.patch_numeric(HL)
    deg = {2: 3, 4: 5}[order]
    if nvar == 3:
        deg = min(deg, 3)
    f, dexact, scale = _polyN(h, nvar, deg)
    x = _points(h, shape, nvar)
    dx = h.reals("dx", (nvar,), 1e-6, 1e2, sample=(0.01, 0.5))
    res = np.asarray(HL.hessian(f, x, order=order, dx=dx, xAxis=xaxis, yAxis=yaxis))
    xa, ya = _axis_list(xaxis, nvar), _axis_list(yaxis, nvar)
    want = tuple(shape) + (len(xa), len(ya))
    h.prove("shape", Cond(b=res.shape == want))
    if res.shape != want:
        return
    for idx in np.ndindex(*shape):
        pt = x[idx]
        for i, a in enumerate(xa):
            for j, b in enumerate(ya):
                sc = None if h.symbolic else scale(pt, dx, 2)
                h.prove_eq("exact", res[idx + (i, j)], dexact(pt, (a % nvar, b % nvar)),
                           conc_scale=sc, conc_rtol=1e-9)
                h.observe("hess", res[idx + (i, j)])


# ---- EffectivePotential wrappers on a polynomial potential with symbolic coefficients


def _make_potential(h, nfields, deg):
    f, dexact, scale = _polyN(h, nfields + 1, deg)
    seen_T = []   # every temperature the potential is evaluated at

    class Pot(EP.EffectivePotential):
        fieldCount = nfields
        effectivePotentialError = 1e-15

        def evaluate(self, fields, temperature):
            fields = np.asarray(fields)
            T = np.asarray(temperature)
            seen_T.extend(np.ravel(T))
            X = np.empty(np.broadcast_shapes(fields.shape[:-1], T.shape) + (nfields + 1,),
                         dtype=object if h.symbolic else float)
            X[..., :-1] = fields
            X[..., -1] = T
            return f(X)

    pot = Pot()
    pot.seen_T = seen_T
    return pot, dexact, scale


def h_veff(h, nfields, which, npoints, per_point_T=False):
    h.patch_numeric(HL)
    h.patch_numeric(EP)
    deg = 3
    pot, dexact, scale = _make_potential(h, nfields, deg)
    fscale = [0.5, 2.0, 1.0][:nfields]
    tscale = 0.25
    pot.configureDerivatives(EP.VeffDerivativeSettings(
        temperatureVariationScale=tscale, fieldValueVariationScale=fscale))
    pts = h.reals("phi", (npoints, nfields), -20, 20)
    T = h.real("T", 0.0, 50)
    fields = Fields.castFromNumpy(pts)
    nv = nfields + 1
    sc = None

    def full(i):
        return list(pts[i]) + [T]
    if per_point_T and which != "derivT":
        # the way the wall equations call the wrappers: one temperature per grid point (a profile);
        # each point's derivative is taken at ITS temperature
        Tarr = np.array([T] + [h.real(f"T{i}", 0.0, 50) for i in range(1, npoints)],
                        dtype=object if h.symbolic else float)

        def full(i):  # noqa: F811
            return list(pts[i]) + [Tarr[i]]
        T = Tarr
    if which == "derivT":
        # one temperature per field point (the way WallGo calls it); bounded below by 0
        Ts = np.array([T] + [h.real(f"T{i}", 0.0, 50) for i in range(1, npoints)],
                      dtype=object if h.symbolic else float)
        del pot.seen_T[:]
        res = np.asarray(pot.derivT(fields, Ts))
        h.prove("shape", Cond(b=res.shape == (npoints,)))
        # the temperature derivative is bounded below by T = 0 (potentials need not be defined for
        # T < 0): one-sided stencils next to the bound, never an evaluation at negative temperature
        from symx.core import AND as _AND, ge as _ge
        h.prove("derivT never evaluates the potential at a negative temperature",
                _AND(*[_ge(t, 0.0) for t in pot.seen_T]) if pot.seen_T else Cond(b=False))
        for i in range(npoints):
            h.prove_eq("exact", res[i], dexact(list(pts[i]) + [Ts[i]], (nv - 1,)), conc_rtol=1e-5)
            h.observe("dVdT", res[i])
    elif which == "derivField":
        res = np.asarray(pot.derivField(fields, T))
        h.prove("shape", Cond(b=res.shape == (npoints, nfields)))
        for i in range(npoints):
            for a in range(nfields):
                h.prove_eq("exact", res[i, a], dexact(full(i), (a,)), conc_rtol=1e-5)
                h.observe("dVdphi", res[i, a])
    elif which == "deriv2FieldT":
        res = np.asarray(pot.deriv2FieldT(fields, T))
        h.prove("shape", Cond(b=res.shape == (npoints, nfields)))
        for i in range(npoints):
            for a in range(nfields):
                h.prove_eq("exact", res[i, a], dexact(full(i), (a, nv - 1)), conc_rtol=1e-4)
    elif which == "deriv2Field2":
        res = np.asarray(pot.deriv2Field2(fields, T))
        h.prove("shape", Cond(b=res.shape == (npoints, nfields, nfields)))
        for i in range(npoints):
            for a in range(nfields):
                for b in range(nfields):
                    h.prove_eq("exact", res[i, a, b], dexact(full(i), (a, b)), conc_rtol=1e-4)
    elif which == "allSecond":
        hess, dgdT, d2T = pot.allSecondDerivatives(fields, T)
        hess, dgdT, d2T = np.asarray(hess), np.asarray(dgdT), np.asarray(d2T)
        h.prove("shape", Cond(b=hess.shape == (npoints, nfields, nfields)
                              and dgdT.shape == (npoints, nfields) and d2T.shape == (npoints,)))
        for i in range(npoints):
            h.prove_eq("exact-d2T", d2T[i], dexact(full(i), (nv - 1, nv - 1)), conc_rtol=1e-4)
            for a in range(nfields):
                h.prove_eq("exact-dgdT", dgdT[i, a], dexact(full(i), (a, nv - 1)), conc_rtol=1e-4)
                for b in range(nfields):
                    h.prove_eq("exact-hess", hess[i, a, b], dexact(full(i), (a, b)),
                               conc_rtol=1e-4)


def _tables(h):
    """The stencil tables themselves: every row of coefficients annihilates / reproduces the
    monomial moments (pure table check on the lifted rationals, no function call)."""
    from fractions import Fraction as Fr
    for n, COEFF, POS in ((1, HL.FIRST_DERIV_COEFF, HL.FIRST_DERIV_POS),
                          (2, HL.SECOND_DERIV_COEFF, HL.SECOND_DERIV_POS)):
        for order in ("2", "4"):
            C, P = COEFF[order], POS[order]
            for r in range(C.shape[0]):
                npts = C.shape[1]
                for k in range(npts):
                    s = sum(core.lift_float(C[r, j]) * core.lift_float(P[r, j]) ** k
                            for j in range(npts))
                    want = (1 if k == 1 else 0) if n == 1 else (2 if k == 2 else 0)
                    h.prove(f"table n={n} order={order} row={r} moment={k}", Cond(b=s == want))


def h_tables(h):
    _tables(h)


_D_CASES_Q = [dict(n=n, order=o, bnd=b, shape=0) for n in (1, 2) for o in (2, 4)
              for b in ("none", "both", "lower0", "upper")]
_D_CASES_Q += [dict(n=1, order=2, bnd="both", shape=2), dict(n=2, order=4, bnd="lower0", shape=2)]
_D_CASES_T = _D_CASES_Q + [dict(n=n, order=o, bnd="both", shape=2) for n in (1, 2) for o in (2, 4)]

_G_Q = [dict(order=o, nvar=nv, shape=sh, axis=ax, dxmode=dm)
        for o, nv, sh, ax, dm in [
            (4, 1, (), None, "array"), (4, 2, (), None, "array"), (2, 2, (), None, "array"),
            (4, 2, (2,), 1, "array"), (4, 2, (), [1, 0], "float"), (2, 3, (), [2, 0], "array"),
            (4, 2, (2, 1), -1, "array"), (2, 1, (2,), 0, "float")]]
_G_T = [dict(order=o, nvar=nv, shape=sh, axis=ax, dxmode="array")
        for o in (2, 4) for nv in (1, 2, 3) for sh in ((), (2,), (2, 1)) for ax in AXES[nv]
        if not (nv == 3 and o == 4 and sh != ())]
_H_Q = [dict(order=o, nvar=nv, shape=sh, xaxis=xa, yaxis=ya)
        for o, nv, sh, xa, ya in [
            (2, 1, (), None, None), (4, 1, (), None, None), (2, 2, (), None, None),
            (4, 2, (), None, None), (4, 2, (), [0, 1], -1), (2, 2, (2,), 0, [1, 0]),
            (2, 3, (), [0, 2], 1), (4, 2, (2,), 1, 1)]]
_H_T = _H_Q + [dict(order=o, nvar=2, shape=sh, xaxis=xa, yaxis=ya)
               for o in (2, 4) for sh in ((), (2,)) for xa in (None, 0, [1, 0]) for ya in (None, -1)]
_H_T += [dict(order=4, nvar=3, shape=(), xaxis=None, yaxis=None)]
_V_Q = [dict(nfields=nf, which=w, npoints=np_) for nf, w, np_ in [
    (1, "derivT", 1), (2, "derivT", 2), (1, "derivField", 1), (2, "derivField", 2),
    (2, "deriv2FieldT", 1), (2, "deriv2Field2", 1), (1, "allSecond", 1), (2, "allSecond", 1)]]
_V_Q += [dict(nfields=2, which="derivField", npoints=3, per_point_T=True),
         dict(nfields=1, which="deriv2FieldT", npoints=2, per_point_T=True)]
_V_T = _V_Q + [dict(nfields=1, which="derivField", npoints=2, per_point_T=True),
               dict(nfields=2, which="deriv2Field2", npoints=2, per_point_T=True),
               dict(nfields=2, which="allSecond", npoints=2, per_point_T=True)] + [dict(nfields=3, which=w, npoints=1) for w in ("derivField", "deriv2FieldT")] + \
    [dict(nfields=2, which=w, npoints=2) for w in ("deriv2Field2", "allSecond")]

HARNESSES = [
    HarnessDef("tables", h_tables, [dict()], encodes=[], random_validation=0),
    HarnessDef("derivative", h_derivative, _D_CASES_Q, _D_CASES_T, max_paths=200, timeout_s=60,
               encodes=[HL.derivative], validation_rtol=1e-2),
    HarnessDef("gradient", h_gradient, _G_Q, _G_T, max_paths=50, timeout_s=120,
               encodes=[HL.gradient], validation_rtol=1e-2),
    HarnessDef("hessian", h_hessian, _H_Q, _H_T, max_paths=50, timeout_s=120,
               encodes=[HL.hessian], validation_rtol=1e-2),
    HarnessDef("veff-derivatives", h_veff, _V_Q, _V_T, max_paths=100, timeout_s=120, validation_rtol=1e-2,
               encodes=[EP.EffectivePotential.derivT, EP.EffectivePotential.derivField,
                        EP.EffectivePotential.deriv2FieldT, EP.EffectivePotential.deriv2Field2,
                        EP.EffectivePotential.allSecondDerivatives]),
]

MANIFEST = {
    "text": "For every stencil row the bound/offset arithmetic of helpers.derivative can select "
            "(each row = one symbolic path), and for gradient/hessian and the EffectivePotential "
            "wrappers for every listed input shape and axis selection, z3 proves over the reals "
            "that the value the real code returns equals the exact derivative of the generic "
            "polynomial of degree (#stencil points - 1) with symbolic coefficients, symbolic x, "
            "dx and bounds, and that no evaluation point leaves the bounds. Bounded by the "
            "enumerated (n, order, bounds kind, shape, axes) cases; unbounded in the numeric inputs."
            " The EffectivePotential wrappers are also decided with one temperature per point, and derivT never evaluates the potential at negative temperature.",
    "note": "Reals, not float64 (rounding and the (x+dx)-x trick are outside); table entries "
            "lifted to the rationals they round; narrow domains (hi-lo < span*dx) are a "
            "precondition; hessian claimed to degree order+1 (what a cross stencil can deliver).",
}
