"""C15 -- full hydrodynamics and the template model agree on template equations of state.

What can be decided by a solver is that the template model's closed forms *are* solutions of
the general conservation laws on the template equation of state
    p+(T) = w+(T)/mu - eps,  p-(T) = w-(T)/nu,  w+ = wN (T/Tn)^mu,  w- = psiN wN (T/Tn)^nu ,
so that both solvers target the same equations.  The real template methods (`getVp`,
`wFromAlpha`, `_findTm`, `detonationVAndT`, `matchDeflagOrHybInitial`, `findMatching` tail,
`_dxiAndWdv`, `_shooting`) run on symbolic parameters; temperatures enter only through
enthalpies wherever possible so that the claims stay algebraic (powers with symbolic exponents
are uninterpreted with exponent-shift and inverse-exponent axioms where needed).
"""
import types

import numpy as np
import z3

import WallGo.hydrodynamicsTemplateModel as HT

from symx import axioms, core, npx
from symx.core import AND, OR, NOT, Cond, Sym, eq, ge, gt, le, lt, ne
from symx.harness import HarnessDef, bare

EXPLANATION = __doc__
BOUNDS = {"parameters": "cs^2, cb^2 in (0.05,0.5); alphaN in (1e-3,1); psiN in (0.3,1); v in (0,1): symbolic",
          "paths": "<= 100 per harness (sign / abs / min branches of the closed forms)"}
OUTSIDE = ["agreement of the numbers the two solvers converge to (LTE velocity, kappa, vMin, "
           "matching at a given vw): numerical comparison, not solver-decidable",
           "the template vJ as a zero of the general derivative numerator (covered indirectly: "
           "C06 proves template vJ = Chapman-Jouguet point and general zero = Chapman-Jouguet)"]
ASSUMPTIONS = ["pow(b,e) uninterpreted with pow(pow(c,1/e),e)=c for positive c where both occur"]


def pow_inverse_axioms(e):
    out = []
    apps = e.apps.get("pow", [])
    for (b1, e1), a1 in apps:
        for (b2, e2), a2 in apps:
            if b1.eq(a2):  # a1 = pow(pow(b2,e2), e1)
                out.append(z3.Implies(z3.And(b2 > 0, e1 * e2 == 1), a1 == b2))
    return out


def make_template(h, with_T=False):
    h.patch(HT, float=npx.symfloat, np=npx.NP(), pow=core.sym_pow)
    t = bare(HT.HydrodynamicsTemplateModel)
    t.cs2 = h.real("cs2", 0.05, 0.5, default=1 / 3)
    t.cb2 = h.real("cb2", 0.05, 0.5, default=0.3)
    t.cs = core.sym_sqrt(t.cs2) if h.symbolic else t.cs2 ** 0.5
    t.cb = core.sym_sqrt(t.cb2) if h.symbolic else t.cb2 ** 0.5
    t.alN = h.real("alN", 1e-3, 1.0, default=0.05)
    t.psiN = h.real("psiN", 0.3, 1.0, default=0.9)
    t.wN = h.real("wN", 0.01, 1e4, default=2.0)
    t.pN = h.real("pN", -1e4, 1e4, default=0.4)
    t.Tnucl = h.real("Tn", 0.01, 1e3, default=1.0)
    t.nu = 1 + 1 / t.cb2
    t.mu = 1 + 1 / t.cs2
    t.epsilon = t.wN * (1 / t.mu - (1 - 3 * t.alN) / t.nu)
    t.rtol, t.atol = 1e-6, 1e-10
    return t


def g2(v):
    return 1 / (1 - v * v)


def h_junction(h):
    """alpha+(v+,v-) of the template + wFromAlpha + epsilon are consistent with energy and
    momentum conservation across the wall on the template EOS"""
    t = make_template(h)
    vp = h.real("vp", 0.001, 0.999, default=0.3)
    vm = h.real("vm", 0.001, 0.999, default=0.5)
    al = (vp / vm - 1.0) * (vp * vm / t.cb2 - 1.0) / (1 - vp * vp) / 3.0
    A = (1 - 3 * t.alN) * t.mu - t.nu
    B = (1 - 3 * al) * t.mu - t.nu
    h.assume(gt(A * B, 0), "alpha+ and alphaN on the same side of (mu-nu)/(3 mu): positive enthalpy in front of the wall")
    wrel = t.wFromAlpha(al)
    wp = t.wN * wrel
    pp = wp / t.mu - t.epsilon
    wm = wp * g2(vp) * vp / (g2(vm) * vm)       # energy flux conservation defines w-
    pm = wm / t.nu
    sc = None if h.symbolic else float(abs(wp) + abs(pp))
    h.prove_eq("momentum flux conserved with alpha+ from the template formula", wp * g2(vp) * vp * vp + pp,
               wm * g2(vm) * vm * vm + pm, conc_scale=sc, conc_rtol=1e-6)
    # the two sites computing alpha+ agree
    al2 = ((vm - vp) * (t.cb2 - vm * vp)) / (3 * t.cb2 * vm * (1 - vp * vp))
    h.prove_eq("alpha+ in findMatching and in matchDeflagOrHybInitial are the same function", al, al2)
    h.observe("al", al)


def h_getvp(h, branch):
    t = make_template(h)
    vm = h.real("vm", 0.001, 0.999, default=0.5)
    al = h.real("al", 1e-4, 1 / 3.0, default=0.05)
    disc = vm ** 4 - 2 * t.cb2 * vm ** 2 * (1 - 6 * al) + t.cb2 ** 2 * (1 - 12 * vm ** 2 * al * (1 - 3 * al))
    h.assume(ge(disc, 0), "real solutions of the junction quadratic")
    vp = t.getVp(vm, al, branch)
    h.assume(AND(gt(vp, 0), lt(vp, 1)))
    back = (vp / vm - 1.0) * (vp * vm / t.cb2 - 1.0) / (1 - vp * vp) / 3.0
    h.prove_eq("getVp inverts alpha+(v+, v-)", back, al, conc_rtol=1e-7)
    h.observe("vp", vp)


def h_findtm(h):
    t = make_template(h)
    vp = h.real("vp", 0.001, 0.999, default=0.3)
    vm = h.real("vm", 0.001, 0.999, default=0.5)
    Tp = h.real("Tp", 0.01, 1e3, default=1.1)
    Tm = t._findTm(vm, vp, Tp)
    powf = core.sym_pow if h.symbolic else (lambda b, e: b ** e)
    wp = t.wN * powf(Tp / t.Tnucl, t.mu)
    wm = t.psiN * t.wN * powf(Tm / t.Tnucl, t.nu)
    h.observe("Tm", Tm)
    if h.symbolic:
        return  # the power-of-power algebra needs more pow axioms than z3 handles; decided in conc/fold only
    h.prove("T- from _findTm conserves the energy flux on the template EOS", None,
            conc=lambda: abs(wp * g2(vp) * vp - wm * g2(vm) * vm) <= 1e-9 * abs(wp * g2(vp) * vp))


def h_detonation(h):
    t = make_template(h)
    vw = h.real("vw", 0.05, 0.999, default=0.9)
    part = vw * vw + t.cb2 * (1 - 3 * (1 - vw * vw) * t.alN)
    h.assume(ge(part * part, 4 * t.cb2 * vw * vw))
    t._findTm = lambda vm, vp, Tp: Tp
    vp, vm, Tp, Tm = t.detonationVAndT(vw)
    h.assume(AND(gt(vm, 0), lt(vm, 1)))
    al = (vp / vm - 1.0) * (vp * vm / t.cb2 - 1.0) / (1 - vp * vp) / 3.0
    h.prove_eq("detonation (v+=vw, v-) satisfies the junction relation with alpha+ = alphaN", al, t.alN, conc_rtol=1e-7)


def h_ode(h, wave):
    t = make_template(h)
    v = h.real("v", 0.001, 0.999, default=0.2)
    xi = h.real("xi", 0.001, 0.999, default=0.6)
    w = h.real("w", 0.01, 1e3, default=1.3)
    h.assume(ne(xi, v))
    shock = (wave == "shock")
    dxidv, dwdv = t._dxiAndWdv(v, np.array([xi, w], dtype=object if h.symbolic else float), shock)
    cs2 = t.cs2 if shock else t.cb2
    m = (xi - v) / (1 - xi * v)
    h.assume(ne(m * m, cs2))
    dvdxi = 2 * v / xi / (g2(v) * (1 - v * xi) * (m * m / cs2 - 1))
    h.prove_eq("template dxi/dv is the reciprocal of dv/dxi", dxidv * dvdxi, 1.0)
    h.prove_eq("template dw/dv = w (1 + 1/cs^2) gamma^2 mu", dwdv, w * (1 + 1 / cs2) * g2(v) * m, conc_rtol=1e-8)


def h_shooting(h):
    """the shooting residual vanishes exactly when energy and momentum are conserved across
    the shock front (plasma ahead: enthalpy 1 in units of wN, same phase on both sides)"""
    t = make_template(h)
    vw = h.real("vw", 0.01, 0.99, default=0.5)
    vp = h.real("vp", 0.001, 0.99, default=0.3)
    h.assume(lt(vp, vw))
    vsh = h.real("front_v", 0.001, 0.99, default=0.1)      # fluid velocity at the front (centre frame)
    xsh = h.real("front_xi", 0.01, 0.999, default=0.62)
    wsh = h.real("front_w", 0.01, 1e3, default=1.2)
    conc_consistent = False
    if h.mode == "conc" and h.use_defaults and abs(vsh - 0.1) < 1e-15:
        # default plain-float point: build a front state that DOES conserve energy and momentum
        # (w ahead = 1, p = w/mu - eps on both sides): v1 v2 = 1/(mu-1), v1/v2 = ((mu-1) w2 + 1)/((mu-1) + w2)
        mu_ = float(t.mu)
        ratio = ((mu_ - 1) * wsh + 1) / ((mu_ - 1) + wsh)
        v1 = (ratio / (mu_ - 1)) ** 0.5
        v2 = v1 / ratio
        xsh = v1
        vsh = (v1 - v2) / (1 - v1 * v2)
        conc_consistent = True
    h.assume(lt(vsh, xsh))
    t.integratePlasma = lambda v0, vw_, wp, shockWave=True: types.SimpleNamespace(
        t=np.array([vsh], dtype=object if h.symbolic else float),
        y=np.array([[xsh], [wsh]], dtype=object if h.symbolic else float))
    h.assume(AND(gt(abs(vp * vw - t.cs2) if not h.symbolic else core.sabs(vp * vw - t.cs2), 1e-12)), "generic case (front ahead of the wall)")
    res = t._shooting(vw, vp)
    v1 = xsh                                   # plasma ahead at rest: speed xi_sh in the front frame
    v2 = (xsh - vsh) / (1 - xsh * vsh)         # behind the front
    # conservation across the front, EOS p = w/mu - eps on both sides, w ahead = 1
    e_ok = eq(1.0 * g2(v1) * v1, wsh * g2(v2) * v2)
    m_ok = eq(1.0 * g2(v1) * v1 * v1 + 1.0 / t.mu, wsh * g2(v2) * v2 * v2 + wsh / t.mu)
    if h.symbolic:
        h.prove("conservation across the shock front => shooting residual vanishes",
                core.IMPLIES(AND(e_ok, m_ok), eq(res, 0)))
    elif conc_consistent:
        h.prove("conservation across the shock front => shooting residual vanishes", None,
                conc=lambda: abs(res) <= 1e-9)


def h_tmatching(h):
    """template.findMatching (deflagration / hybrid): with the shooting residual an arbitrary function
    of (vw, v+): v- = min(vw, c_b); the v+ bracket is [0, min(cs^2/vw, vw)], cut at the point where the
    template enthalpy w+ changes sign FOR THAT v- (alpha+(v+, v-) = (mu-nu)/(3 mu)); None only without a
    sign change of the residual; otherwise v+ is a zero of the residual and T+ = Tn w+(alpha+)^(1/mu)."""
    from props.hydrokit import ScipyStubs
    t = make_template(h)
    t.vJ = h.real("vJ", 0.05, 0.99, default=0.85)
    t.vMin = h.real("vMin", 0, 0.5, strict=False, default=0.01)
    vw = h.real("vw", 0.01, 0.99, default=0.62)
    h.assume(AND(le(vw, t.vJ), ge(vw, t.vMin)))
    SH = h.ufun("Shoot", lambda vw_, vp_: vp_ - 0.3)
    t._shooting = lambda vw_, vp_: SH(vw_, vp_)
    Tm_stub = h.real("TmFound", 0.01, 1e4, default=0.9)
    t._findTm = lambda vm_, vp_, Tp_: Tm_stub
    st = ScipyStubs(h, bad_bracket="raise")
    h.patch_always(HT, root_scalar=st.root_scalar)
    out = t.findMatching(vw)
    rs = [c for c in st.calls if c[0] == "root_scalar"]
    h.prove("one bracketed root search", Cond(b=len(rs) == 1 and rs[0][2] is not None))
    a, b = rs[0][2]
    cb = t.cb
    vm = vw if bool(vw <= cb) else cb
    cap0 = (t.cs2 / vw) if bool(t.cs2 / vw <= vw) else vw
    target = (t.mu - t.nu) / (3 * t.mu)

    def alpha_plus(vp_, vm_):
        return (vp_ / vm_ - 1.0) * (vp_ * vm_ / t.cb2 - 1.0) / (1 - vp_ * vp_) / 3.0
    h.prove("bracket starts at v+ = 0", eq(a, 0.0) if isinstance(a, Sym) else Cond(b=a == 0))
    h.prove("bracket ends at min(cs^2/vw, vw), or just below the sign change of w+ at THIS v- = min(vw, c_b)",
            core.OR(eq(b, cap0), AND(lt(b, cap0), eq(alpha_plus(b + 1e-10, vm), target))),
            conc=(lambda: abs(b - cap0) <= 1e-12 or (b < cap0 and abs(alpha_plus(b + 1e-10, vm) - target) <= 1e-7))
            if not h.symbolic else None)
    if out[0] is None:
        h.prove("None only if the residual has one sign at both bracket ends", gt(SH(vw, a) * SH(vw, b), 0))
        return
    vp, vm_o, Tp, Tm = out
    h.prove_eq("v+ is a zero of the shooting residual", SH(vw, vp), 0.0)
    h.prove_eq("v- = min(vw, c_b)", vm_o, vm)
    al = alpha_plus(vp, vm)
    h.assume(gt(core.sabs((1 - 3 * al) * t.mu - t.nu) if h.symbolic else abs((1 - 3 * al) * t.mu - t.nu), 1e-3),
             "returned v+ not within 1e-3 of the pole of w+(alpha+) (there the float comparison is ill-conditioned)")
    wp = t.wFromAlpha(al)
    h.assume(gt(wp, 0), "positive enthalpy at the returned v+")
    h.prove_eq("T+ = Tn w+(alpha+(v+, v-))^(1/mu)", Tp, t.Tnucl * core.sym_pow(wp, 1 / t.mu) if h.symbolic else t.Tnucl * wp ** (1 / t.mu))
    h.prove_eq("T- from _findTm", Tm, Tm_stub)


def h_tkappa(h):
    """template.efficiencyFactor: which waves are integrated, from where, and how they are combined.
    The matching is an arbitrary admissible tuple (deflagration: v- = vw; hybrid: v- = c_b < vw;
    detonation: v+ = vw, v- < vw).  A rarefaction wave exists exactly when the plasma right behind the
    wall moves in the bubble-centre frame (v- != vw); a shock wave exactly below the Jouguet velocity."""
    t = make_template(h)
    t.vJ = h.real("vJ", 0.05, 0.99, default=0.75)
    vw = h.real("vw", 0.01, 0.99, default=0.56)
    Tp = h.real("m_Tp", 0.01, 1e4, default=1.1)
    Tm = h.real("m_Tm", 0.01, 1e4, default=1.0)
    h.assume(gt(t.vJ, t.cb), "the Jouguet velocity is supersonic with respect to the broken phase")
    if bool(vw <= t.vJ):
        vm = vw if bool(vw <= t.cb) else t.cb
        vp = h.real("m_vp", 0.001, 0.99, default=0.35)
        h.assume(lt(vp, vm))
    else:
        vp = vw
        vm = h.real("m_vm", 0.001, 0.99, default=0.6)
        h.assume(AND(lt(vm, vw), ge(vm, t.cb)))
    t.findMatching = lambda v: (vp, vm, Tp, Tm)
    waves = []

    def integratePlasma(v0, vw_, w0, shockWave=True):
        k = len(waves)
        sol = types.SimpleNamespace(
            t=np.array([h.fresh("wave_v", -1, 1, default=0.1 + 0.01 * k), h.fresh("wave_v", -1, 1, default=0.05)],
                       dtype=object if h.symbolic else float),
            y=np.array([[h.fresh("wave_xi", 0, 1, default=0.6), h.fresh("wave_xi", 0, 1, default=0.7)],
                        [h.fresh("wave_w", 0, 1e3, default=1.2), h.fresh("wave_w", 0, 1e3, default=1.1)]],
                       dtype=object if h.symbolic else float))
        waves.append(dict(v0=v0, vw=vw_, w0=w0, shock=shockWave, sol=sol))
        return sol
    t.integratePlasma = integratePlasma
    simp = []

    def simpson(y=None, x=None, **kw):
        val = h.fresh("simpson", -10, 10, default=0.01 * (1 + len(simp)))
        simp.append((np.asarray(y), np.asarray(x), val))
        return val
    h.patch_always(HT, simpson=simpson)
    kappa = t.efficiencyFactor(vw)
    shocks = [w for w in waves if w["shock"]]
    rares = [w for w in waves if not w["shock"]]
    h.prove("a shock wave is integrated exactly for vw < vJ", Cond(b=(len(shocks) == 1) == bool(vw < t.vJ) and len(shocks) <= 1))
    moving = not _same_val(vm, vw)
    h.prove("a rarefaction wave is integrated exactly when the plasma behind the wall moves (v- != vw)",
            Cond(b=(len(rares) == 1) == moving and len(rares) <= 1))
    mu_ = lambda a, b: (a - b) / (1 - a * b)
    wp = core.sym_pow(Tp / t.Tnucl, t.mu) if h.symbolic else (Tp / t.Tnucl) ** t.mu
    total = 0.0
    k = 0
    if shocks:
        w = shocks[0]
        h.prove("shock wave starts at the fluid velocity mu(vw, v+) with the enthalpy in front of the wall",
                AND(eq(w["v0"], mu_(vw, vp)), eq(w["vw"], vw), eq(w["w0"], wp)))
        y, x, val = simp[k]
        k += 1
        for i in range(2):
            vi, xi, wi = w["sol"].t[i], w["sol"].y[0][i], w["sol"].y[1][i]
            h.prove_eq(f"shock integrand xi^2 v^2 gamma^2 w (sample {i})", y[i], xi * xi * vi * vi * g2(vi) * wi, conc_rtol=1e-9)
        total = total + val
    if rares:
        w = rares[0]
        wm = g2(vp) * vp * wp / (g2(vm) * vm)
        h.prove("rarefaction wave starts at mu(vw, v-) with the enthalpy behind the wall",
                AND(eq(w["v0"], mu_(vw, vm)), eq(w["vw"], vw), eq(w["w0"], wm)))
        y, x, val = simp[k]
        for i in range(2):
            vi, xi, wi = w["sol"].t[i], w["sol"].y[0][i], w["sol"].y[1][i]
            h.prove_eq(f"rarefaction integrand xi^2 v^2 gamma^2 w (sample {i})", y[i], xi * xi * vi * vi * g2(vi) * wi, conc_rtol=1e-9)
        total = total - val
    h.prove_eq("kappa = 4 (shock integral - rarefaction integral) / (vw^3 alpha_n)", kappa,
               4 * total / (vw * vw * vw * t.alN), conc_rtol=1e-9)


def _same_val(a, b):
    if isinstance(a, Sym) and isinstance(b, Sym):
        return a.t.eq(b.t)
    if isinstance(a, Sym) or isinstance(b, Sym):
        return False
    return a == b


def h_maxal(h, part, cap=100.0):
    """template.maxAl: (a) the residual it brackets is the SAME wall-matching residual as _eqWall
    (evaluated through the real _eqWall with getVp / wFromAlpha pinned to the closure's v+ and w+);
    (b) its sentinels: no sign change below the cap => the cap (no finite bound); residual positive
    from the lower limit on => the lower limit; otherwise a bracketed zero."""
    from props.hydrokit import ScipyStubs
    t = make_template(h)
    st = ScipyStubs(h)
    captured = {}
    real_rs, real_ms = st.root_scalar, st.minimize_scalar

    def rs(f, *a, **k):
        captured["f"] = f
        return real_rs(f, *a, **k)

    def ms(f, *a, **k):
        captured.setdefault("m", []).append(f)
        return real_ms(f, *a, **k)
    h.patch_always(HT, root_scalar=rs, minimize_scalar=ms)
    if part == "residual":
        probe = h.real("alN_probe", 0.01, 5.0, default=0.3)
        seen = {}

        def spy_rs(f, *a, **k):
            seen["f"] = f
            raise _Captured()

        def spy_ms(f, *a, **k):
            seen["f"] = f
            raise _Captured()
        h.patch_always(HT, root_scalar=spy_rs, minimize_scalar=spy_ms)
        try:
            t.maxAl(100.0)
        except _Captured:
            pass
        f = seen["f"]
        val = f(probe)
        # the closure handed to minimize_scalar may be -matching: recover the sign from the code path
        vw = t.findJouguetVelocity(probe)
        vp = t.cs2 / vw
        vm = t.cb
        wp = (vp + vw - vw * t.mu) / (vp + vw - vp * t.mu)
        al = (t.mu - t.nu) / (3 * t.mu) + (probe - (t.mu - t.nu) / (3 * t.mu)) / wp
        t.getVp = lambda vm_, al_, branch=-1: vp
        t.wFromAlpha = lambda al_: wp
        ref = t._eqWall(al, vm)
        h.prove("maxAl brackets the same wall-matching residual as _eqWall (up to the sign used for maximising)",
                core.OR(core.eq(val, ref), core.eq(val, -ref)),
                conc=(lambda: min(abs(val - ref), abs(val + ref)) <= 1e-9 * (1 + abs(ref))) if not h.symbolic else None)
        return
    out = t.maxAl(cap)
    lower = (1 - t.psiN) / 3
    roots = [c for c in st.calls if c[0] == "root_scalar"]
    mins = [c for c in st.calls if c[0] == "minimize_scalar"]

    def M(alN):
        """the wall-matching residual at alN through the real _eqWall (shown equal to the closure by
        the 'residual' part)"""
        vw = t.findJouguetVelocity(alN)
        vp = t.cs2 / vw
        wp = (vp + vw - vw * t.mu) / (vp + vw - vp * t.mu)
        al = (t.mu - t.nu) / (3 * t.mu) + (alN - (t.mu - t.nu) / (3 * t.mu)) / wp
        g, w = t.getVp, t.wFromAlpha
        t.getVp, t.wFromAlpha = (lambda vm_, al_, branch=-1: vp), (lambda al_: wp)
        try:
            return t._eqWall(al, t.cb)
        finally:
            t.getVp, t.wFromAlpha = g, w
    if not roots:
        neg_at_cap = lt(M(cap), 0)
        if (neg_at_cap.symbolic and core.cur().branch(neg_at_cap.z)) or (not neg_at_cap.symbolic and neg_at_cap.b):
            if len(mins) == 1:
                # residual negative at the cap and (by the maximiser) everywhere below: no finite bound
                h.prove("no sign change of the residual below the cap => the cap is returned (no finite bound)",
                        Cond(b=(not isinstance(out, Sym)) and out == cap))
            else:
                h.prove_eq("after the cap was lowered to the maximiser: residual positive from the lower limit on => lower limit",
                           out, lower)
        else:
            h.prove_eq("residual non-negative at the cap and positive from the lower limit on => lower limit", out, lower)
    else:
        h.prove_eq("bracketed zero of the residual", captured["f"](out), 0.0)
        h.prove("inside [lower limit, cap]", AND(ge(out, lower), le(out, cap)))


class _Captured(Exception):
    pass


AX = [axioms.pow_axioms, pow_inverse_axioms]

HARNESSES = [
    HarnessDef("junction-consistency", h_junction, [dict()], max_paths=100, timeout_s=120, axioms=AX,
               encodes=[HT.HydrodynamicsTemplateModel.wFromAlpha], random_validation=3),
    HarnessDef("getVp-inverts-alpha", h_getvp, [dict(branch=-1), dict(branch=1)], max_paths=40, timeout_s=120,
               axioms=AX, encodes=[HT.HydrodynamicsTemplateModel.getVp], random_validation=3),
    HarnessDef("findTm-energy-flux", h_findtm, [dict()], max_paths=20, timeout_s=60, axioms=AX,
               encodes=[HT.HydrodynamicsTemplateModel._findTm], random_validation=6),
    HarnessDef("detonation-junction", h_detonation, [dict()], max_paths=20, timeout_s=120, axioms=AX,
               encodes=[HT.HydrodynamicsTemplateModel.detonationVAndT], random_validation=3),
    HarnessDef("template-ode", h_ode, [dict(wave="shock"), dict(wave="rarefaction")], max_paths=20, timeout_s=60,
               axioms=AX, encodes=[HT.HydrodynamicsTemplateModel._dxiAndWdv], random_validation=3),
    HarnessDef("template-findMatching", h_tmatching,
               [dict(_pin=dict(cs2=0.239, cb2=0.315, alN=0.0807, psiN=0.897, wN=2.0, pN=0.4, Tn=1.0, vJ=0.9, vMin=0.01)),
                dict(_pin=dict(cs2=1 / 3, cb2=0.3, alN=0.05, psiN=0.9, wN=2.0, pN=0.4, Tn=1.5, vJ=0.85, vMin=0.01))],
               max_paths=100, timeout_s=60, axioms=AX,
               encodes=[HT.HydrodynamicsTemplateModel.findMatching], random_validation=2, concrete_alarms=False),
    HarnessDef("template-efficiency-factor", h_tkappa, [dict()], max_paths=60, timeout_s=60, axioms=AX,
               encodes=[HT.HydrodynamicsTemplateModel.efficiencyFactor], random_validation=2),
    HarnessDef("template-maxAl", h_maxal,
               [dict(part="residual"), dict(part="sentinels"),
                # semi-concrete twins where the plain-float run of the real code (real scipy) takes the
                # sentinel exits: residual negative on the whole window / positive on the whole window
                dict(part="sentinels", _pin=dict(cs2=0.2, cb2=0.3, alN=0.05, psiN=0.9, wN=2.0, pN=0.4, Tn=1.0)),
                dict(part="sentinels", cap=1.0, _pin=dict(cs2=0.4, cb2=0.2, alN=0.05, psiN=0.99, wN=2.0, pN=0.4, Tn=1.0))],
               # thorough: without the fully symbolic sentinel case -- with the thorough time budget its
               # exploration reaches queries on which z3 enters a non-interruptible algebraic-number
               # computation (observed: > 1 h at 100 % CPU); the quick tier keeps it within its budget
               [dict(part="residual"),
                dict(part="sentinels", _pin=dict(cs2=0.2, cb2=0.3, alN=0.05, psiN=0.9, wN=2.0, pN=0.4, Tn=1.0)),
                dict(part="sentinels", cap=1.0, _pin=dict(cs2=0.4, cb2=0.2, alN=0.05, psiN=0.99, wN=2.0, pN=0.4, Tn=1.0)),
                dict(part="sentinels", cap=100.0, _pin=dict(cs2=1 / 3, cb2=0.3, alN=0.05, psiN=0.9, wN=2.0, pN=0.4, Tn=1.0))],
               max_paths=200, timeout_s=60, timeout_s_thorough=60,  # longer z3 budgets reach a non-interruptible algebraic-number phase
               axioms=AX, encodes=[HT.HydrodynamicsTemplateModel.maxAl, HT.HydrodynamicsTemplateModel._eqWall],
               random_validation=2, concrete_alarms=False, feas_timeout_ms=300),
    HarnessDef("shooting-residual", h_shooting, [dict()], max_paths=60, timeout_s=120, axioms=AX,
               encodes=[HT.HydrodynamicsTemplateModel._shooting], random_validation=1),
]

MANIFEST = {
    "text": "On the template EOS (symbolic cs^2, cb^2, alphaN, psiN, wN) z3 proves that the template "
            "closed forms solve the general conservation laws: alpha+(v+,v-) with wFromAlpha and "
            "epsilon conserves momentum flux once energy flux is imposed; getVp inverts "
            "alpha+(v+,v-) on both branches; detonationVAndT satisfies the junction relation with "
            "alpha+=alphaN; the template ODE is the similarity-variable system in enthalpy form; the "
            "shooting residual vanishes whenever energy and momentum are conserved across the shock "
            "front. (_findTm's energy-flux identity is checked on concrete/folded points only.)"
            " template.findMatching (semi-concrete EOS, symbolic vw): v- = min(vw, c_b), bracket [0, min(cs^2/vw, vw)] cut at the sign change of w+ for that v-, None only without a sign change, T+ = Tn w+^(1/mu)."
            " template.efficiencyFactor integrates a shock wave exactly below vJ and a rarefaction wave exactly when v- != vw, from mu(vw, v+-) with the right enthalpies, and combines them as 4 (I_sw - I_rw)/(vw^3 alpha_n).",
    "note": "Agreement of converged numbers of the two solvers is numerical and outside.",
}
