"""C08 -- results are covariant under relabelling of field space (kernel level).

Self-composition: each kernel through which the field labels enter the wall solver is run
twice inside one query -- on the original inputs and on inputs transformed by a symbolic
translation t, a sign pattern sigma in {+1,-1}^n and a permutation P of the n <= 3 fields
(vevs, field values and gradients transformed, widths/offsets permuted) -- and z3 decides that
the outputs are related "in the obvious way": `EOM.wallProfile` (fields -> sigma P fields + t,
gradients -> sigma P gradients), `EOM.action` (invariant; potential values are those of the
consistently transformed potential, i.e. equal by assumption), `EOM._updateGrid` (the grid it
configures is invariant), the field/point axis contraction of the pressure integrand, and the
`Fields` accessors (points x fields layout).  The whole-pipeline statement (numbers of two
complete runs agree) is numerical and not decided.
"""
import itertools
import types

import numpy as np
import z3

import WallGo.equationOfMotion as EOMM
import WallGo.polynomial as PM
import WallGo.grid as GR
import WallGo.grid3Scales as G3
from WallGo.containers import WallParams
from WallGo.fields import FieldPoint, Fields
from WallGo.grid3Scales import Grid3Scales

from symx import axioms, core, npx
from symx.core import AND, OR, Cond, Sym, close, eq, gt, lt
from symx.harness import HarnessDef, bare

EXPLANATION = __doc__
BOUNDS = {"fields": "2 and 3 (all permutations, all sign patterns)", "translation": "symbolic vector",
          "grid": "M=3 for action/_updateGrid"}
OUTSIDE = ["end-to-end covariance of solveWall / phase tracing (numerical)",
           "tolerances that depend on max|phi| (tracePhase tolAbsolute): not translation invariant by "
           "construction, a tolerance-level effect that is recorded, not asserted"]
ASSUMPTIONS = ["the transformed potential takes the same values at transformed field points (that is "
               "what 'transformed consistently' means): the potential stub is keyed by the original labels"]


def _transform(arr, perm, sigma, t):
    """new[j] = sigma[j]*old[perm[j]] + t[j] along the last axis"""
    arr = np.asarray(arr)
    out = np.empty(arr.shape, dtype=object)
    for j in range(arr.shape[-1]):
        out[..., j] = sigma[j] * arr[..., perm[j]] + t[j]
    return out


def _setup(h, nf):
    lo = h.reals("vevLow", (nf,), -10, 10)
    hi = h.reals("vevHigh", (nf,), -10, 10)
    L = h.reals("width", (nf,), 0.05, 50)
    off = h.reals("offset", (nf,), -3, 3)
    t = h.reals("shift", (nf,), -20, 20)
    return lo, hi, L, off, t


def h_profile(h, nf, perm, sigma, gauge=False):
    h.patch(EOMM, float=npx.symfloat, np=npx.NP())
    eom = bare(EOMM.EOM)
    lo, hi, L, off, t = _setup(h, nf)
    z = np.array([h.real("z0", -30, 30, default=-0.7), h.real("z1", -30, 30, default=1.3)],
                 dtype=object if h.symbolic else float)
    f, d = eom.wallProfile(z, Fields.castFromNumpy(lo[None, :]), Fields.castFromNumpy(hi[None, :]),
                           WallParams(widths=L, offsets=off))
    lo2, hi2 = _transform(lo, perm, sigma, t), _transform(hi, perm, sigma, t)
    L2 = np.array([L[perm[j]] for j in range(nf)], dtype=L.dtype)
    off2 = np.array([off[perm[j]] for j in range(nf)], dtype=off.dtype)
    f2, d2 = eom.wallProfile(z, Fields.castFromNumpy(lo2[None, :]), Fields.castFromNumpy(hi2[None, :]),
                             WallParams(widths=L2, offsets=off2))
    f, d, f2, d2 = (np.asarray(x) for x in (f, d, f2, d2))
    for i in range(2):
        for j in range(nf):
            h.prove_eq(f"profile of relabelled field {j} = sigma*old[{perm[j]}] + t (point {i})",
                       f2[i, j], sigma[j] * f[i, perm[j]] + t[j])
            h.prove_eq(f"gradient of relabelled field {j} = sigma*old gradient (point {i})",
                       d2[i, j], sigma[j] * d[i, perm[j]])
    if not gauge:
        return
    # which field carries the pinned zero offset depends on the ORDER of the fields (the solver pins
    # the first one): two orders describe the same wall seen from origins a apart, so profile and
    # gradient must be covariant under z -> z + a, delta_i -> delta_i + a / L_i
    a = h.real("origin_shift", -5, 5, default=0.8)
    za = np.array([zi + a for zi in z], dtype=z.dtype)
    offa = np.array([off[j] + a / L[j] for j in range(nf)], dtype=off.dtype)
    f3, d3 = eom.wallProfile(za, Fields.castFromNumpy(lo[None, :]), Fields.castFromNumpy(hi[None, :]),
                             WallParams(widths=L, offsets=off))
    f4, d4 = eom.wallProfile(z, Fields.castFromNumpy(lo[None, :]), Fields.castFromNumpy(hi[None, :]),
                             WallParams(widths=L, offsets=offa))
    f3, d3, f4, d4 = (np.asarray(x) for x in (f3, d3, f4, d4))
    for i in range(2):
        for j in range(nf):
            h.prove_eq(f"profile: moving the origin = shifting every offset by a/L (field {j}, point {i})", f3[i, j], f4[i, j])
            h.prove_eq(f"gradient: moving the origin = shifting every offset by a/L (field {j}, point {i})", d3[i, j], d4[i, j])


def _make_eom(h, nf, M=3):
    h.patch(EOMM, float=npx.symfloat, np=npx.NP())
    h.patch_numeric(PM)
    h.patch_numeric(GR)
    h.patch_numeric(G3)
    eom = bare(EOMM.EOM)
    eom.grid = Grid3Scales(M, 3, 8.0, 8.0, 2.0, 1.0, 0.5, 0.1)
    eom.nbrFields = nf
    eom.includeOffEq = False
    eom.meanFreePathScale = 3.0
    eom.thermo = types.SimpleNamespace(Tnucl=1.0)
    eom.particles = []
    return eom


def h_action(h, nf, perm, sigma):
    eom = _make_eom(h, nf)
    n = eom.grid.M - 1
    lo, hi, L, off, t = _setup(h, nf)
    Vv = h.reals("V", (n,), -5, 5)
    Vl, Vh = h.real("Vlow", -5, 5, default=-1.0), h.real("Vhigh", -5, 5, default=-0.5)
    calls = {"n": 0}

    class Pot:
        # consistently transformed potential: same values at corresponding points
        def evaluate(self, fields, T):
            fields = np.asarray(fields)
            if fields.shape[0] == n:
                return Vv
            calls["n"] += 1
            return np.array([Vl if calls["n"] % 2 == 1 else Vh], dtype=object if h.symbolic else float)
    eom.thermo.effectivePotential = Pot()
    D00 = types.SimpleNamespace(coefficients=np.zeros((1, n)))
    Tprof = np.linspace(1.0, 1.1, n)
    S1 = eom.action(WallParams(widths=L, offsets=off), Fields.castFromNumpy(lo[None, :]),
                    Fields.castFromNumpy(hi[None, :]), Tprof, D00)
    lo2, hi2 = _transform(lo, perm, sigma, t), _transform(hi, perm, sigma, t)
    L2 = np.array([L[perm[j]] for j in range(nf)], dtype=L.dtype)
    off2 = np.array([off[perm[j]] for j in range(nf)], dtype=off.dtype)
    S2 = eom.action(WallParams(widths=L2, offsets=off2), Fields.castFromNumpy(lo2[None, :]),
                    Fields.castFromNumpy(hi2[None, :]), Tprof, D00)
    h.prove_eq("action invariant under translation, reflection and permutation of the fields", S2, S1, conc_rtol=1e-9)
    h.observe("S", S1)


def h_updategrid(h, nf, perm):
    eom = _make_eom(h, nf)
    got = []
    eom.grid = types.SimpleNamespace(smoothing=0.1, ratioPointsWall=0.5,
                                     changePositionFalloffScale=lambda *a: got.append(a))
    L = h.reals("width", (nf,), 0.05, 50)
    off = h.reals("offset", (nf,), -3, 3)
    v = h.real("vmid", -0.9, 0.9, default=-0.4)
    eom._updateGrid(WallParams(widths=L, offsets=off), v)
    L2 = np.array([L[perm[j]] for j in range(nf)], dtype=L.dtype)
    off2 = np.array([off[perm[j]] for j in range(nf)], dtype=off.dtype)
    eom._updateGrid(WallParams(widths=L2, offsets=off2), v)
    for k, name in enumerate(("tail inside", "tail outside", "thickness", "centre")):
        h.prove_eq(f"grid {name} unchanged by permuting the fields", got[1][k], got[0][k])
    # envelope of all walls: every wall core (|z/L + offset| <= 1) lies inside [centre +- thickness (1+log2/2)]
    thick, centre = got[0][2], got[0][3]
    for a in range(nf):
        h.prove(f"grid thickness covers the core of wall {a}", core.ge(2 * thick, 2 * L[a]))


def h_contraction(h, nf, perm):
    """sum over the FIELD axis of dV/dphi . dphi/dz, quadrature over the POINT axis"""
    eom = _make_eom(h, nf, M=4)
    n = eom.grid.M - 1
    dV = h.reals("dVdphi", (n, nf), -5, 5)
    eom.thermo.effectivePotential = types.SimpleNamespace(derivField=lambda f, T: eom._dV)
    eom.wallThicknessBounds = (0.1, 100.0)
    eom.wallOffsetBounds = (-10.0, 10.0)
    h.patch_always(EOMM, scipy=types.SimpleNamespace(optimize=types.SimpleNamespace(
        minimize=lambda fun, x0, **k: types.SimpleNamespace(x=np.asarray(x0)), Bounds=lambda lb, ub: (lb, ub))))
    widths = np.array([2.0, 3.1, 1.4][:nf])
    offs = np.array([0.0, 0.4, -0.3][:nf])
    lo = np.array([[1.0, 0.2, -0.5][:nf]])
    hi = np.array([[0.3, 0.8, 0.6][:nf]])
    bres = types.SimpleNamespace(Deltas=types.SimpleNamespace(Delta00=types.SimpleNamespace(coefficients=np.zeros((1, n)))))
    Tprof, vprof = np.linspace(1.0, 1.1, n), -0.4 * np.ones(n)

    def run(p):
        eom._dV = np.array(dV[:, list(p)])
        wp = WallParams(widths=widths[list(p)].copy(), offsets=offs[list(p)].copy())
        # pin the first offset convention out of the comparison: keep all offsets (no re-minimisation)
        eom._toWallParams = lambda arr, wp=wp: WallParams(widths=wp.widths.copy(), offsets=wp.offsets.copy())
        return eom._intermediatePressureResults(wp, Fields.castFromNumpy(lo[:, list(p)]), Fields.castFromNumpy(hi[:, list(p)]),
                                                -0.6, 0.4, -0.45, bres, 1.1, 1.0, Tprof, vprof, 1.0)[0]
    p1 = run(tuple(range(nf)))
    p2 = run(perm)
    h.prove_close("pressure unchanged by permuting the fields", p2, p1, rtol=0, atol=1e-7)


def h_lhs(h, nf, perm, sigma):
    """the conservation function of the plasma profile is invariant under relabelling"""
    h.patch(EOMM, float=npx.symfloat, np=npx.NP())
    eom = bare(EOMM.EOM)
    phi = h.reals("phi", (nf,), -10, 10)
    dphi = h.reals("dphi", (nf,), -10, 10)
    t = h.reals("shift", (nf,), -20, 20)
    T = h.real("T", 0.01, 1e3, default=1.1)
    s1, s2 = h.real("s1", -100, 100, default=-0.6), h.real("s2", -100, 100, default=0.4)
    h.assume(core.ne(s1, 0), "T30 - T30_out != 0 (division in plasmaVelocity)")
    Vv, dVdT = h.real("Vval", -100, 100, default=-1.0), h.real("dVdTval", -100, -1e-3, default=-1.2)
    # consistently transformed potential: same value / temperature derivative at corresponding points
    eom.thermo = types.SimpleNamespace(effectivePotential=types.SimpleNamespace(
        evaluate=lambda f, T_: Vv, derivT=lambda f, T_: dVdT))
    a = eom.temperatureProfileEqLHS(FieldPoint(phi), FieldPoint(dphi), T, s1, s2)
    phi2 = _transform(phi, perm, sigma, t)
    dphi2 = _transform(dphi, perm, sigma, [0.0] * nf)
    b = eom.temperatureProfileEqLHS(FieldPoint(phi2), FieldPoint(dphi2), T, s1, s2)
    h.prove_eq("conservation function invariant under translation, reflection, permutation", b, a, conc_rtol=1e-9)
    va = eom.plasmaVelocity(FieldPoint(phi), T, s1)
    vb = eom.plasmaVelocity(FieldPoint(phi2), T, s1)
    h.prove_eq("plasma velocity invariant", vb, va)


def h_fields(h):
    """Fields is (points x fields): accessors pick the documented axis"""
    A = h.reals("a", (3, 2), -5, 5)
    F = Fields.castFromNumpy(A.copy())
    h.prove("numPoints/numFields", Cond(b=F.numPoints() == 3 and F.numFields() == 2))
    for i in range(2):
        col = np.asarray(F.getField(i))
        h.prove(f"getField({i}) is column {i} over points", Cond(b=col.shape == (3,) and all(col[k] is A[k, i] or (not isinstance(col[k], Sym) and col[k] == A[k, i]) for k in range(3))))
    for k in range(3):
        row = np.asarray(F.getFieldPoint(k))
        h.prove(f"getFieldPoint({k}) is row {k} over fields", Cond(b=row.shape == (2,) and all(row[i] is A[k, i] or (not isinstance(row[i], Sym) and row[i] == A[k, i]) for i in range(2))))
    sl = np.asarray(F.takeSlice(1, -1, axis=F.overFieldPoints))
    h.prove("takeSlice over points drops the end points, keeps all fields", Cond(b=sl.shape == (1, 2)))
    sl2 = np.asarray(F.takeSlice(0, 1, axis=F.overFieldTypes))
    h.prove("takeSlice over field types keeps all points", Cond(b=sl2.shape == (3, 1)))
    one = Fields.castFromNumpy(A[0].copy())
    h.prove("a 1-D array is one field-space point", Cond(b=one.numPoints() == 1 and one.numFields() == 2))
    rs = np.asarray(one.resizeFields(3, 2))
    h.prove("resizeFields repeats the point", Cond(b=rs.shape == (3, 2)))
    for k in range(3):
        for i in range(2):
            h.prove_eq(f"resizeFields entry ({k},{i})", rs[k, i], A[0, i])
    F2 = Fields.castFromNumpy(A.copy())
    newcol = h.reals("c", (3,), -5, 5)
    F2.setField(1, newcol)
    for k in range(3):
        h.prove_eq(f"setField writes column 1 (point {k})", np.asarray(F2)[k, 1], newcol[k])
        h.prove_eq(f"setField leaves column 0 (point {k})", np.asarray(F2)[k, 0], A[k, 0])


def _perms(nf):
    return [p for p in itertools.permutations(range(nf))]


def _signs(nf):
    return [s for s in itertools.product((1, -1), repeat=nf)]


_PQ = [dict(nf=2, perm=p, sigma=s) for p in _perms(2) for s in _signs(2)] + \
      [dict(nf=3, perm=(2, 0, 1), sigma=(1, -1, -1)), dict(nf=3, perm=(1, 0, 2), sigma=(-1, 1, 1))]
_PQ += [dict(nf=2, perm=(0, 1), sigma=(1, 1), gauge=True)]
_PT = [dict(nf=nf, perm=p, sigma=s) for nf in (2, 3) for p in _perms(nf) for s in _signs(nf)] + \
    [dict(nf=nf, perm=tuple(range(nf)), sigma=(1,) * nf, gauge=True) for nf in (1, 2, 3)]
_AQ = [dict(nf=2, perm=p, sigma=s) for p in _perms(2) for s in ((1, 1), (-1, 1))] + [dict(nf=3, perm=(2, 0, 1), sigma=(1, -1, 1))]
_AT = [dict(nf=nf, perm=p, sigma=s) for nf in (2, 3) for p in _perms(nf) for s in _signs(nf)]
_GQ = [dict(nf=2, perm=(1, 0)), dict(nf=3, perm=(2, 0, 1))]
_GT = [dict(nf=nf, perm=p) for nf in (2, 3) for p in _perms(nf)]

AX = [axioms.tanh_axioms]

from props.c09 import h_pressure as _h_pressure

HARNESSES = [
    # the set of wall widths and the relative offsets are found by a bounded minimisation over ALL
    # fields but the pinned first one: every free field gets the same configured window (widths in
    # [lo, hi]/Tn, offsets in the offset bounds, which include negative values -- whichever field comes
    # first, the others may sit on either side of it).  Harness shared with C09.
    HarnessDef("minimiser-window-field-blind", _h_pressure,
               [dict(M=3, nf=2, nparticles=1, includeOffEq=True, regrid=True)],
               [dict(M=3, nf=2, nparticles=1, includeOffEq=True, regrid=True),
                dict(M=4, nf=2, nparticles=1, includeOffEq=True, regrid=False)], max_paths=6, timeout_s=60,
               encodes=[EOMM.EOM._intermediatePressureResults], random_validation=1),
    HarnessDef("wallProfile-relabelling", h_profile, _PQ, _PT, max_paths=10, timeout_s=60, axioms=AX,
               encodes=[EOMM.EOM.wallProfile], random_validation=1),
    HarnessDef("action-relabelling", h_action, _AQ, _AT, max_paths=10, timeout_s=60, axioms=AX,
               encodes=[EOMM.EOM.action], random_validation=1),
    HarnessDef("updateGrid-permutation", h_updategrid, _GQ, _GT, max_paths=400, timeout_s=60,
               encodes=[EOMM.EOM._updateGrid], random_validation=1),
    HarnessDef("pressure-contraction-permutation", h_contraction, _GQ, _GT, max_paths=10, timeout_s=60,
               encodes=[EOMM.EOM._intermediatePressureResults], random_validation=1),
    HarnessDef("plasma-lhs-relabelling", h_lhs, _AQ, _AT, max_paths=10, timeout_s=60,
               encodes=[EOMM.EOM.temperatureProfileEqLHS, EOMM.EOM.plasmaVelocity], random_validation=1),
    HarnessDef("fields-layout", h_fields, [dict()], max_paths=4, timeout_s=30,
               encodes=[Fields.getField, Fields.getFieldPoint, Fields.takeSlice, Fields.resizeFields,
                        Fields.setField, Fields.castFromNumpy], random_validation=1),
]

MANIFEST = {
    "text": "Self-composition over every permutation and sign pattern of 2-3 fields with a symbolic "
            "translation: wallProfile returns sigma P (profile) + t and sigma P (gradient); the action "
            "is invariant given equal potential values; _updateGrid configures the same grid for "
            "permuted walls and its thickness covers every wall core; the pressure integrand contracts "
            "over the field axis and integrates over the point axis (invariant under permuting fields, "
            "symbolic gradients); Fields accessors follow the points x fields layout."
            " Profile and gradient are covariant under moving the origin (z -> z+a, offsets -> offsets + a/L), the gauge freedom that makes the pinned first offset independent of the field order."
            " The bounded minimisation gives every free field the same configured window (offset bounds include negative values).",
    "note": "Kernel level only: the agreement of two complete relabelled runs is numerical and outside; "
            "per-field finite-difference scales are exact on polynomials for any step (C19), so they "
            "cannot break covariance of the derivative values.",
}
