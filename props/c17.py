"""C17 -- grid coordinate maps are monotone bijections with consistent Jacobians.

Real `Grid` / `Grid3Scales` methods run on symbolic compact coordinates and symbolic scale
parameters.  The map's derivative is obtained by differentiating the z3 term the real
`decompactify` built (sqrt as algebraic variables, arctanh/log as UFs with their derivative
rules) and compared with the term the real `compactificationDerivatives` built.
"""
from fractions import Fraction as Fr

import numpy as np
import z3

import WallGo.grid as G
import WallGo.grid3Scales as G3
import WallGo.equationOfMotion as EOMM
from WallGo.grid import Grid
from WallGo.grid3Scales import Grid3Scales

from symx import axioms, core, diff, npx
from symx.core import AND, Cond, Sym, close, eq, ge, gt, le, lt
from symx.harness import HarnessDef, bare

EXPLANATION = __doc__
LATTICE = [(Fr(3, 4), Fr(3, 5), Fr(3, 5)), (Fr(2, 7), Fr(12, 7), Fr(12, 7)),
           (Fr(5, 12), Fr(5, 13), Fr(5, 13)), (Fr(1, 6), Fr(7, 8), Fr(7, 8)),
           (Fr(1, 6), Fr(7, 8), Fr(10, 9)), (Fr(1, 6), Fr(10, 9), Fr(7, 8)),
           (Fr(1, 6), Fr(10, 9), Fr(10, 9))]
BOUNDS = {
    "simple grid": "all chi, rho_z, rho_par in (-1,1), all positive scales: fully symbolic",
    "3-scale: origin, centre slope, positivity": "all seven parameters symbolic under the "
        "constructor's own assertions; positivity for smoothing<1/2 symbolic, smoothing in "
        "[1/2,1) on the lattice {1/2, 3/5, 3/4, 9/10}",
    "3-scale: Jacobian = derivative": "for all chi in (-1,1) and all tail lengths, thickness, "
        "smoothing, centre symbolic; (ratioPointsWall, aIn, aOut) on the 7 rational triples for "
        "which the constant radicals are rational (aIn/aOut treated as free parameters)",
    "history": "sequences of <= 3 rescaling calls on grids with M=3, N=3",
}
OUTSIDE = ["the Jacobian identity of the three-scale map away from the rational lattice "
           "(z3/cvc5 return unknown on the fully symbolic identity)", "float rounding",
           "smoothing >= 1 (outside the documented domain)"]
ASSUMPTIONS = ["Re arctanh(u+0j) modelled as a UF with derivative 1/(1-u^2) (true for u != +-1)",
               "sqrt(t) modelled as the non-negative algebraic root"]


def inverse_axioms(e):
    """tanh(a)=b whenever a = arctanh(b); exp(a)=b whenever a = log(b)."""
    out = []
    for (a,), app in e.apps.get("tanh", []):
        for (b,), app2 in e.apps.get("arctanh", []):
            out.append(z3.Implies(a == app2, app == b))
    for (a,), app in e.apps.get("exp", []):
        for (b,), app2 in e.apps.get("log", []):
            out.append(z3.Implies(a == app2, app == b))
    return out


def _fd(f, x, rel=1e-6):
    hh = rel * max(1.0, abs(x))
    return (f(x + hh) - f(x - hh)) / (2 * hh)


def _patch(h):
    h.patch_numeric(G)
    h.patch_numeric(G3)


def _new_simple(h):
    g = bare(Grid)
    g.positionFalloff = h.real("Lz", 1e-3, 1e3, default=1.3)
    g.momentumFalloffT = h.real("T0", 1e-3, 1e3, default=0.7)
    return g


def h_simple(h, cls):
    """simple maps (also the momentum maps of Grid3Scales): inverse, Jacobian, positivity."""
    _patch(h)
    if cls == "Grid":
        g = _new_simple(h)
    else:
        g = _new3(h, free_a=False)
        g.momentumFalloffT = h.real("T0", 1e-3, 1e3, default=0.7)
    chi = h.real("chi", -1, 1, default=0.3)
    rz = h.real("rz", -1, 1, default=-0.6)
    rp = h.real("rp", -1, 1, default=0.2)
    z, pz, pp = g.decompactify(chi, rz, rp)
    J = g.compactificationDerivatives(chi, rz, rp)
    for n, v in zip(("z", "pz", "pp", "Jz", "Jpz", "Jpp"), (z, pz, pp) + tuple(J)):
        h.observe(n, v)
    names = ("z", "pz", "pp")
    first = 1 if cls != "Grid" else 0
    if h.mode == "sym":
        for i, (val, var) in enumerate(zip((z, pz, pp), (chi, rz, rp))):
            if i < first:
                continue
            d = diff.diff(val, var)
            h.prove(f"Jacobian({names[i]}) = d/dchi map", eq(J[i], d))
            h.prove(f"Jacobian({names[i]}) > 0", gt(J[i], 0))
    else:
        for i, var in enumerate((chi, rz, rp)):
            if i < first:
                continue
            args = [chi, rz, rp]

            def f(x, i=i):
                a = list(args)
                a[i] = x
                return g.decompactify(*a)[i]
            fd = _fd(f, var)
            h.prove(f"Jacobian({names[i]}) = d/dchi map", None,
                    conc=lambda fd=fd, i=i: abs(fd - J[i]) <= 1e-5 * abs(J[i]))
            h.prove(f"Jacobian({names[i]}) > 0", Cond(b=J[i] > 0))
    if cls == "Grid":
        zc, pzc, ppc = g.compactify(z, pz, pp)
        h.prove_eq("compactify(decompactify(chi)) = chi", zc, chi)
        h.prove_eq("compactify(decompactify(rz)) = rz", pzc, rz)
        h.prove_eq("compactify(decompactify(rp)) = rp", ppc, rp)
        z0, pz0, _ = g.decompactify(0.0, 0.0, 0.0)
        h.prove_eq("origin -> wall centre (0)", z0, 0.0)
        h.prove_eq("pz origin", pz0, 0.0)
    else:
        g.positionFalloff = g._p["L"]
        _, pzc, ppc = Grid.compactify(g, z, pz, pp)
        h.prove_eq("compactify(decompactify(rz)) = rz", pzc, rz)
        h.prove_eq("compactify(decompactify(rp)) = rp", ppc, rp)


LENGTHS = [dict(L=Fr(1), s=Fr(1, 10), wc=Fr(2, 5), tin=Fr(6), tout=Fr(9)),
           dict(L=Fr(3, 100), s=Fr(3, 10), wc=Fr(-7), tin=Fr(1, 2), tout=Fr(1, 5)),
           dict(L=Fr(40), s=Fr(3, 4), wc=Fr(0), tin=Fr(900), tout=Fr(400)),
           dict(L=Fr(2), s=Fr(1, 100), wc=Fr(1, 3), tin=Fr(50), tout=Fr(7))]


def _new3(h, free_a, lattice=None, smoothing=None, lengths=None):
    g = bare(Grid3Scales)
    if lengths is not None:
        cv = (lambda q: Sym(z3.RealVal(q))) if h.symbolic else float
        L, s, wc, tin, tout = (cv(lengths[k]) for k in ("L", "s", "wc", "tin", "tout"))
        r = cv(lattice[0])
        g._updateParameters(tin, tout, L, r, s, wc)
        g.aIn, g.aOut = cv(lattice[1]), cv(lattice[2])
        g.momentumFalloffT = 1.0
        g._p = dict(L=L, r=r, s=s, wc=wc, tin=tin, tout=tout)
        return g
    L = h.real("L", 1e-2, 1e2, default=1.0)
    if lattice is not None:
        r = float(lattice[0]) if not h.symbolic else Sym(z3.RealVal(lattice[0]))
    else:
        r = h.real("r", 0.01, 0.99, default=0.5)
    if smoothing is not None:
        s = float(smoothing) if not h.symbolic else Sym(z3.RealVal(Fr(smoothing)))
    else:
        s = h.real("s", 1e-3, 0.999, default=0.1)
    wc = h.real("wc", -1e2, 1e2, default=0.4)
    tin = h.real("tailIn", 1e-2, 1e4, default=6.0)
    tout = h.real("tailOut", 1e-2, 1e4, default=9.0)
    h.assume(AND(gt(tin, L * (0.5 + s) / r), gt(tout, L * (0.5 + s) / r)),
             "constructor assertions of Grid3Scales hold (tails > L(1/2+s)/r, 0<r<1, s>0, L>0)")
    g._updateParameters(tin, tout, L, r, s, wc)
    if free_a:
        if lattice is not None:
            if h.symbolic:
                g.aIn, g.aOut = Sym(z3.RealVal(lattice[1])), Sym(z3.RealVal(lattice[2]))
            else:
                g.aIn, g.aOut = float(lattice[1]), float(lattice[2])
    g.momentumFalloffT = 1.0
    g._p = dict(L=L, r=r, s=s, wc=wc, tin=tin, tout=tout)
    return g


def h_three_origin(h):
    _patch(h)
    g = _new3(h, free_a=False)
    z0, _, _ = g.decompactify(np.asarray(0.0), np.asarray(0.0), np.asarray(0.0))
    h.prove_eq("compact origin -> wall centre", core.unbox(z0), g._p["wc"])
    J0 = g.compactificationDerivatives(0.0, 0.0, 0.0)[0]
    h.prove_eq("centre slope = L / ratioPointsWall", J0, g._p["L"] / g._p["r"], conc_rtol=1e-9)
    h.observe("J0", J0)


def h_three_positive(h, smoothing):
    _patch(h)
    g = _new3(h, free_a=False, smoothing=smoothing)
    if smoothing is None:
        h.assume(lt(g._p["s"], 0.5), "smoothing < 1/2 (symbolic sub-range)")
    chi = h.real("chi", -1, 1, default=0.3)
    J = g.compactificationDerivatives(chi, 0.0, 0.0)[0]
    h.prove("Jacobian(z) > 0", gt(J, 0))
    h.observe("J", J)


def h_three_jacobian(h, k, lengths):
    _patch(h)
    lat = LATTICE[k]
    g = _new3(h, free_a=True, lattice=lat, lengths=None if lengths is None else LENGTHS[lengths])
    chi = h.real("chi", -1, 1, default=0.3)
    if h.mode == "sym":
        z = core.unbox(g.decompactify(np.asarray(chi), np.asarray(0.0), np.asarray(0.0))[0])
        J = g.compactificationDerivatives(chi, 0.0, 0.0)[0]
        d = diff.diff(z, chi)
        # rational parametrisation of the radical sqrt(aOut^2 + (chi-r)^2):
        #   chi = r + a (1-t^2)/(2t),  sqrt = a (1+t^2)/(2t),  t > 0   (onto: lemma below)
        e_ = core.cur()
        a, r = core.toz3(g.aOut), core.toz3(g._p["r"])
        S = None
        for v, rad in e_.sqrt_tab.values():
            if z3.is_true(z3.simplify(rad == a * a + (chi.t - r) * (chi.t - r))) or \
                    z3.simplify(rad - (a * a + (chi.t - r) * (chi.t - r))).eq(z3.RealVal(0)):
                S = v
        if S is None:
            raise core.HarnessError("radical sqrt(aOut^2+(chi-r)^2) not found in the map's term")
        t = z3.Real("t_param")
        sub = [(chi.t, r + a * (1 - t * t) / (2 * t)), (S, a * (1 + t * t) / (2 * t))]
        h.prove("Jacobian(z) = d/dchi map (3 scales)", eq(J, d), subst=sub, extra=[t > 0])
        # the change of variables is onto: t := (S-(chi-r))/a
        tt = (S - (chi.t - r)) / a
        h.prove("parametrisation lemma", Cond(z=z3.And(
            tt > 0, chi.t == r + a * (1 - tt * tt) / (2 * tt), S == a * (1 + tt * tt) / (2 * tt))))
    else:
        J = g.compactificationDerivatives(chi, 0.0, 0.0)[0]
        fd = _fd(lambda x: core.unbox(g.decompactify(np.asarray(x), np.asarray(0.0), np.asarray(0.0))[0]), chi)
        h.prove("Jacobian(z) = d/dchi map (3 scales)", None,
                conc=lambda: abs(fd - J) <= 1e-5 * abs(J))
        h.observe("J", J)


def h_three_inverse(h):
    """the inverse offered by a three-scale grid object undoes its map"""
    _patch(h)
    g = _new3(h, free_a=True, lattice=LATTICE[1], lengths=LENGTHS[0])
    g.positionFalloff = g._p["L"]
    chi = h.real("chi", -1, 1, default=0.3)
    z = core.unbox(g.decompactify(np.asarray(chi), np.asarray(0.0), np.asarray(0.0))[0])
    back = g.compactify(z, 0.0, 0.0)[0]
    h.prove("Grid3Scales.compactify(decompactify(chi)) = chi",
            close(back, chi, rtol=0, atol=1e-6))


OPS = ("pos", "mom")


def h_history(h, seq, cls):
    """any sequence of rescaling calls == a freshly constructed grid with the final scales"""
    _patch(h)
    h.patch_numeric(EOMM) if False else None
    M, N = 3, 3

    def scales(tag):
        if cls == "Grid":
            return dict(pos=(h.real(f"Lz{tag}", 1e-2, 1e2, default=1.0 + 0.1 * len(tag)),),
                        mom=h.real(f"T{tag}", 1e-2, 1e2, default=0.5 + 0.1 * len(tag)))
        L = h.real(f"L{tag}", 1e-2, 1e2, default=1.0)
        wc = h.real(f"wc{tag}", -10, 10, default=0.1)
        tin = h.real(f"tin{tag}", 1e-2, 1e4, default=5.0)
        tout = h.real(f"tout{tag}", 1e-2, 1e4, default=7.0)
        h.assume(AND(gt(tin, L * (0.5 + 0.1) / 0.5), gt(tout, L * (0.5 + 0.1) / 0.5)))
        return dict(pos=(tin, tout, L, wc), mom=h.real(f"T{tag}", 1e-2, 1e2, default=0.6))

    s0 = scales("a")
    if cls == "Grid":
        g = Grid(M, N, s0["pos"][0], s0["mom"])
    else:
        g = Grid3Scales(M, N, s0["pos"][0], s0["pos"][1], s0["pos"][2], s0["mom"], 0.5, 0.1,
                        s0["pos"][3])
    cur_pos, cur_mom = s0["pos"], s0["mom"]

    def query(grid):
        # reading the grid is part of every real history (and must not freeze anything)
        for ep in (False, True):
            grid.getCompactCoordinates(ep)
            grid.getCoordinates(ep)
            grid.getCompactificationDerivatives(ep)
    for i, op in enumerate(seq):
        sn = scales("bcd"[i])
        query(g)
        if op == "pos":
            g.changePositionFalloffScale(*sn["pos"])
            cur_pos = sn["pos"]
        else:
            g.changeMomentumFalloffScale(sn["mom"])
            cur_mom = sn["mom"]
    if cls == "Grid":
        f = Grid(M, N, cur_pos[0], cur_mom)
    else:
        f = Grid3Scales(M, N, cur_pos[0], cur_pos[1], cur_pos[2], cur_mom, 0.5, 0.1, cur_pos[3])
    for getter in ("getCoordinates", "getCompactificationDerivatives", "getCompactCoordinates"):
        for ep in (False, True):
            a, b = getattr(g, getter)(ep), getattr(f, getter)(ep)
            tag = getter + ("(endpoints)" if ep else "")
            for k, (x, y) in enumerate(zip(a, b)):
                x, y = np.asarray(x), np.asarray(y)
                h.prove(f"{tag}[{k}] shape", Cond(b=x.shape == y.shape))
                for idx in np.ndindex(*x.shape):
                    if ep and h.symbolic and not isinstance(x[idx], Sym) and not np.isfinite(x[idx]):
                        h.prove(f"{tag}[{k}] equals fresh grid", Cond(b=(not isinstance(y[idx], Sym)) and x[idx] == y[idx]))
                        continue
                    if ep and not h.symbolic and not np.isfinite(x[idx]):
                        h.prove(f"{tag}[{k}] equals fresh grid", Cond(b=bool(x[idx] == y[idx])))
                        continue
                    h.prove_eq(f"{tag}[{k}] equals fresh grid", x[idx], y[idx])
    # (Grid3Scales.positionFalloff is only read by the inherited compactify: known finding)
    for attr in (("positionFalloff", "momentumFalloffT") if cls == "Grid" else ("momentumFalloffT",)):
        h.prove_eq(f"{attr} equals fresh grid", getattr(g, attr), getattr(f, attr))


_SEQ_Q = [(), ("pos",), ("mom",), ("pos", "mom"), ("mom", "pos", "pos")]
_SEQ_T = [()] + [(a,) for a in OPS] + [(a, b) for a in OPS for b in OPS] + \
    [(a, b, c) for a in OPS for b in OPS for c in OPS]

AX = [axioms.tanh_axioms, axioms.exp_axioms, inverse_axioms]

HARNESSES = [
    HarnessDef("simple-maps", h_simple, [dict(cls="Grid"), dict(cls="Grid3Scales")], max_paths=20,
               timeout_s=60, axioms=AX,
               encodes=[Grid.compactify, Grid.decompactify, Grid.compactificationDerivatives,
                        Grid3Scales.decompactify, Grid3Scales.compactificationDerivatives]),
    HarnessDef("three-scale-origin-slope", h_three_origin, [dict()], max_paths=20, timeout_s=120,
               axioms=AX, encodes=[Grid3Scales._updateParameters, Grid3Scales.decompactify,
                                   Grid3Scales.compactificationDerivatives]),
    HarnessDef("three-scale-positive", h_three_positive,
               [dict(smoothing=None), dict(smoothing=0.5)],
               [dict(smoothing=None), dict(smoothing=0.5)], max_paths=20,
               timeout_s=120, axioms=AX, encodes=[Grid3Scales.compactificationDerivatives]),
    HarnessDef("three-scale-jacobian", h_three_jacobian, [dict(k=0, lengths=0), dict(k=1, lengths=1), dict(k=4, lengths=2)],
               [dict(k=k, lengths=l) for k in range(len(LATTICE)) for l in range(len(LENGTHS))],
               max_paths=20, timeout_s=150,
               timeout_s_thorough=600, axioms=AX,
               encodes=[Grid3Scales.decompactify, Grid3Scales.compactificationDerivatives]),
    HarnessDef("three-scale-inverse", h_three_inverse, [dict()], max_paths=20, timeout_s=60,
               axioms=AX, encodes=[Grid.compactify, Grid3Scales.decompactify]),
    HarnessDef("rescale-history", h_history,
               [dict(seq=s, cls=c) for s in _SEQ_Q for c in ("Grid", "Grid3Scales")],
               [dict(seq=s, cls=c) for s in _SEQ_T for c in ("Grid", "Grid3Scales")],
               max_paths=20, timeout_s=60, axioms=AX, random_validation=1,
               encodes=[Grid.__init__, Grid._cacheCoordinates, Grid.changeMomentumFalloffScale,
                        Grid.changePositionFalloffScale, Grid3Scales.__init__,
                        Grid3Scales.changePositionFalloffScale, Grid.getCoordinates,
                        Grid.getCompactificationDerivatives]),
]

MANIFEST = {
    "text": "Simple grid: for all compact coordinates and scales z3 proves inverse(map)=id, "
            "Jacobian = derivative of the map (term differentiation), Jacobian>0, origin->centre. "
            "Three-scale grid: origin->wallCenter and centre slope = L/r exactly for all seven "
            "parameters; Jacobian>0 (smoothing<1/2 symbolic, [1/2,1) on a lattice); Jacobian = "
            "derivative of the five-arctanh map for all chi and all lengths with "
            "(r,aIn,aOut) on the 7 rational triples with rational radicals; rescaling histories "
            "of length <=3 equal a fresh grid; the inherited inverse is checked against the map "
            "(known finding)."
            " Rescaling histories include reading every accessor (with and without end points) before each rescale.",
    "note": "arctanh/log/exp/tanh as UFs with inverse and derivative rules; sqrt as algebraic "
            "root; the fully symbolic 3-scale Jacobian identity is beyond z3 and is NOT claimed.",
}
