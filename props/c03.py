"""C03 -- the matched flow reaches the nucleation temperature ahead of the wall.

Formula and decision layer of the shock solver.  `helpers.gammaSq/boostVelocity`,
`Hydrodynamics.shockDE`, the closures `shock` and `TiiShock` of `solveHydroShock`, the
decision logic of `findMatching` and the integrand/prefactor of `efficiencyFactor` run on
symbolic arguments with the ODE integrator a contract stub (nondeterministic terminal state
satisfying the code's own terminal event).  The oracle is the self-similar system written
independently in the similarity variable:
    dv/dxi = 2 v / xi / [gamma^2 (1 - v xi) (mu^2/cs^2 - 1)],   dT/dxi = T gamma^2 mu dv/dxi,
front condition mu(xi,v) xi = cs^2, and energy-flux conservation across the front
    w(Tn) gamma^2(xi) xi = w(T_sh) gamma^2(mu) mu .
"""
import types

import numpy as np
import z3

import WallGo.helpers as HL
import WallGo.hydrodynamics as HY
from WallGo.exceptions import WallGoError

from symx import core, npx
from symx.core import AND, OR, NOT, Cond, Sym, eq, ge, gt, le, lt, ne
from symx.harness import HarnessDef
from props.hydrokit import Result, ScipyStubs, ThermoStub, tolerance_claims
from props.c02 import make_hydro, arctan_axioms

EXPLANATION = __doc__
BOUNDS = {"paths": "<= 300 per harness", "ODE": "terminal state is an arbitrary state satisfying "
          "the terminal event; kappa integrand checked on 3 arbitrary samples"}
OUTSIDE = ["accuracy of RK45 / Simpson and agreement with an independent integrator (numerical)",
           "convergence of brentq", "the momentum-flux relation at the front for general EOS"]
ASSUMPTIONS = ["EOS: arbitrary w>0, 0<cs^2<1 (uninterpreted functions of T)"]


def g2(v):
    return 1 / (1 - v * v)


def mu(xi, v):
    return (xi - v) / (1 - xi * v)


def h_helpers(h):
    h.patch(HL, float=npx.symfloat, np=npx.NP())
    v = h.real("v", -0.999, 0.999, default=0.3)
    xi = h.real("xi", 0.001, 0.999, default=0.6)
    h.prove_eq("gammaSq(v) = 1/(1-v^2)", HL.gammaSq(v), 1 / (1 - v * v))
    h.prove_eq("boostVelocity(xi,v) = (xi-v)/(1-xi v)", HL.boostVelocity(xi, v), (xi - v) / (1 - xi * v))
    h.prove("boost of a subluminal velocity is subluminal",
            AND(lt(HL.boostVelocity(xi, v), 1), gt(HL.boostVelocity(xi, v), -1)))
    h.prove_eq("boost by the same velocity gives rest", HL.boostVelocity(v, v), 0.0)
    h.observe("g", HL.gammaSq(v))


def h_shockde(h, wave):
    hy, th, st = make_hydro(h)
    v = h.real("v", 0.001, 0.999, default=0.2)
    xi = h.real("xi", 0.001, 0.999, default=0.6)
    T = h.real("T", 0.01, 1e3, default=1.1)
    h.assume(ne(xi, v))
    shock = (wave == "shock")
    eq1, eq2 = hy.shockDE(v, np.array([xi, T], dtype=object if h.symbolic else float), shock)
    cs2 = th.csqHighT(T) if shock else th.csqLowT(T)
    m = mu(xi, v)
    h.assume(ne(m * m, cs2), "away from the sonic point mu^2 = cs^2 (where dv/dxi diverges)")
    dvdxi = 2 * v / xi / (g2(v) * (1 - v * xi) * (m * m / cs2 - 1))
    dTdxi = T * g2(v) * m * dvdxi
    h.prove_eq("dxi/dv is the reciprocal of dv/dxi of the similarity-variable system", eq1 * dvdxi, 1.0)
    h.prove_eq("dT/dv = (dT/dxi)/(dv/dxi)", eq2 * dvdxi, dTdxi, conc_rtol=1e-7)
    h.observe("eq1", eq1)
    h.observe("eq2", eq2)


class IvpStub:
    """solve_ivp contract: the trajectory ends at an arbitrary state at which the terminal
    event supplied by the code vanishes; intermediate samples are arbitrary."""

    def __init__(self, h, nsamples=1):
        self.h = h
        self.calls = []
        self.nsamples = nsamples

    def __call__(self, fun, t_span, y0, events=None, rtol=None, atol=None, args=None, **kw):
        h = self.h
        self.calls.append(dict(fun=fun, t_span=t_span, y0=y0, events=events, rtol=rtol, atol=atol, args=args))
        ts, ys = [], []
        for i in range(self.nsamples):
            ts.append(h.fresh("ivp_v", 0, 1, default=0.1 + 0.02 * i))
            ys.append([h.fresh("ivp_xi", 0, 1, default=0.62 + 0.01 * i), h.fresh("ivp_T", 0, None, default=1.05 - 0.01 * i)])
        if events is not None:
            ev = events(ts[-1], ys[-1])
            h.assume(eq(ev, 0), "solve_ivp contract: the integration stops where the terminal event vanishes")
        t = np.array(ts, dtype=object if h.symbolic else float)
        y = np.array(ys, dtype=object if h.symbolic else float).T
        return types.SimpleNamespace(t=t, y=y, success=True)


def h_solveshock(h):
    hy, th, st = make_hydro(h)
    ivp = IvpStub(h)
    h.patch_always(HY, solve_ivp=ivp)
    vw = h.real("vw", 0.001, 0.999, default=0.5)
    vp = h.real("vp", 0.0, 0.999, strict=False, default=0.3)
    Tp = h.real("Tp", 0.01, 1e3, default=1.1)
    h.assume(le(vp, vw))
    Tn = hy.solveHydroShock(vw, vp, Tp)
    roots = [c for c in st.calls if c[0] == "root_scalar"]
    h.prove("one root search for Tn", Cond(b=len(roots) == 1))
    tolerance_claims(h, st, hy, "solveHydroShock: ")
    # which branch: shock front at the wall, v+ = vw, or integrated
    vpcent = mu(vw, vp)
    if ivp.calls:
        c = ivp.calls[0]
        h.prove("ODE integrated in v from the wall-frame v+ boosted to the centre frame", AND(
            eq(c["t_span"][0], vpcent), eq(c["y0"][0], vw), eq(c["y0"][1], Tp)))
        h.prove("ODE right-hand side is shockDE and integration stops on the front condition",
                Cond(b=c["fun"] == hy.shockDE and c["events"] is not None and getattr(c["events"], "terminal", False)))
        h.prove("relative tolerance handed to the integrator", Cond(b=c["rtol"] == hy.rtol and c["atol"] == 0))
        # terminal event = mu(xi,v)*xi - cs^2(T)
        x0, x1, x2 = h.real("e_v", 0.001, 0.9, default=0.2), h.real("e_xi", 0.1, 0.999, default=0.7), h.real("e_T", 0.01, 1e3, default=1.0)
        h.prove_eq("front condition mu(xi,v) xi = cs^2", c["events"](x0, [x1, x2]), mu(x1, x0) * x1 - th.csqHighT(x2))
    # the energy-flux condition at the front in independent form
    last = roots[0] if roots else None
    if ivp.calls:
        sol_t = h.values  # noqa
    # reconstruct the front state the code used from the stub's records
    if ivp.calls:
        k = [n for n, t, lo, hi in h.inputs if n.startswith("ivp_")]
    # evaluate RH with the code's own state: TiiShock(Tn)=0 was imposed on the real closure;
    # restate it independently for each branch
    if ivp.calls:
        names = {n.split("#")[0]: (Sym(t) if t is not None else h.values[n]) for n, t, lo, hi in h.inputs
                 if n.startswith("ivp_")}
        vm, xs, Ts = names["ivp_v"], names["ivp_xi"], names["ivp_T"]
    else:
        vm, xs, Ts = None, None, None
    if ivp.calls:
        m_ = mu(xs, vm)
        sc = None if h.symbolic else float(th.wHighT(Tn)) + float(th.wHighT(Ts))
        h.prove_eq("energy flux continuous across the front: w(Tn) g^2(xi) xi = w(Tsh) g^2(mu) mu",
                   th.wHighT(Tn) * g2(xs) * xs, th.wHighT(Ts) * g2(m_) * m_, conc_scale=sc, conc_rtol=1e-6)
    else:
        # no integration: either the front sits at the wall, or v+ = vw (sound wave)
        if bool(vw == vp) if not h.symbolic else False:
            pass
        sc = None if h.symbolic else 10.0
        # front at the wall: plasma ahead at rest at Tn, behind it the wall-frame state (v+, T+)
        front_at_wall = th.wHighT(Tn) * g2(vw) * vw
        flux_wall = th.wHighT(Tp) * g2(vp) * vp
        h.prove("without integration: the front is at the wall with the flux matched there, or "
                "v+ = vw (sound wave, no enthalpy jump)",
                OR(eq(front_at_wall, flux_wall), AND(eq(vw, vp), eq(th.wHighT(Tn), th.wHighT(Tp)))))


def h_findmatching(h):
    """decision logic of findMatching for deflagrations/hybrids with the shock mismatch
    D(v+) = solveHydroShock(...) - Tn an arbitrary function"""
    hy, th, st = make_hydro(h, stubs=None)
    st.bad_bracket = "assume"
    D = h.ufun("Dshock", lambda vp: 0.2 - vp)
    Tpf = h.ufun("TpOfVp", lambda vp: 1.0 + 0.3 * vp)
    hy.vJ = h.real("vJ", 0.05, 0.99, default=0.7)
    vw = h.real("vw", 0.01, 0.99, default=0.5)
    h.assume(le(vw, hy.vJ))
    h.assume(AND(lt(hy.vBracketLow, vw), lt(hy.vBracketLow * vw, th.csqHighT(hy.Tnucl))),
             "the admissible v+ interval [1e-3, min(vw, cs^2/vw)] is non-empty")
    calls = {"match": [], "template": 0}

    def matchDeflagOrHyb(v, vp=None):
        calls["match"].append(vp)
        return vp, vp * 0 + 0.5, Tpf(vp), Tpf(vp) * 0 + 1.0
    hy.matchDeflagOrHyb = matchDeflagOrHyb
    hy.solveHydroShock = lambda v, vp, Tp: D(vp) + hy.Tnucl
    tmpl_result = ("template",)

    def tmpl_find(v):
        calls["template"] += 1
        return tmpl_result
    hy.template.findMatching = tmpl_find
    out = hy.findMatching(vw)
    vpmin = hy.vBracketLow
    vpmax0 = min(vw, th.csqHighT(hy.Tnucl) / vw) if not h.symbolic else _symmin(vw, th.csqHighT(hy.Tnucl) / vw)
    rs = [c for c in st.calls if c[0] == "root_scalar"]
    if out is tmpl_result:
        # approximate (template) answer: only when no admissible v+ brings the flow to Tn
        h.prove("template fallback only without a sign change between the v+ ends tried",
                gt(D(vpmin) * D(vpmax0), 0))
        S = lambda vp: vp - th.csqHighT(Tpf(vp)) / vw
        tried = len(rs) >= 1
        h.prove("before falling back, the upper end v+ = cs^2(T+)/vw was re-solved whenever it is bracketed",
                OR(Cond(b=tried), gt(S(vw) * S(vpmax0), 0)))
        h.prove("fallback only if the bounded search found no point with vanishing or opposite mismatch",
                Cond(b=any(c[0] == "minimize_scalar" for c in st.calls)))
    else:
        vp, vm, Tp, Tm = out
        h.prove_eq("the returned state reaches Tn ahead of the shock: mismatch vanishes at the returned v+", D(vp), 0.0)
        h.prove("returned v+ inside the admissible interval", AND(ge(vp, vpmin), le(vp, vw)))


def _symmin(a, b):
    return a if bool(a <= b) else b


def h_kappa(h):
    hy, th, st = make_hydro(h)
    ivp = IvpStub(h, nsamples=3)
    h.patch_always(HY, solve_ivp=ivp)
    simp = []

    def simpson(y=None, x=None, **kw):
        simp.append((np.asarray(y), np.asarray(x)))
        return h.fresh("simpson", None, None, default=0.01)
    h.patch_always(HY, simpson=simpson)
    hy.vJ = h.real("vJ", 0.05, 0.99, default=0.7)
    hy.template.vJ = h.real("templ_vJ", 0.05, 0.99, default=0.65)   # differs from the true vJ for a general EOS
    vw = h.real("vw", 0.01, 0.99, default=0.4)
    vp, vm = h.real("m_vp", 0.001, 0.99, default=0.3), h.real("m_vm", 0.001, 0.99, default=0.4)
    Tp, Tm = h.real("m_Tp", 0.01, 1e3, default=1.1), h.real("m_Tm", 0.01, 1e3, default=1.0)
    h.assume(AND(lt(vp, vw), eq(vm, vw), lt(vw * vw, th.csqLowT(Tm))), "subsonic deflagration: v- = vw < cs-, v+ < vw")
    hy.findMatching = lambda v: (vp, vm, Tp, Tm)
    kappa = hy.efficiencyFactor(vw)
    # shock(vpcent, [vw, T+]) < 0 with vpcent = mu(vw, v+): mu(vw, vpcent) = v+, so the test is v+ vw < cs^2(T+)
    front_ahead = lt(vp * vw, th.csqHighT(Tp))
    if not simp:
        h.prove_eq("no shock wave integrated => kappa = 0", kappa, 0.0)
        h.prove("the shock-wave contribution is skipped only for vw >= vJ (the model's own Jouguet velocity) "
                "or when the front sits at the wall", OR(ge(vw, hy.vJ), NOT(front_ahead)))
        return
    h.prove("a shock wave is integrated only below the model's own Jouguet velocity", lt(vw, hy.vJ))
    y, x = simp[0]
    c = ivp.calls[0]
    h.prove("shock integrated from the boosted v+ at (vw, T+)", AND(
        eq(c["t_span"][0], mu(vw, vp)), eq(c["y0"][0], vw), eq(c["y0"][1], Tp)))
    vs, xis, Ts = ivp_samples(h)
    for i in range(3):
        h.prove_eq(f"kappa integrand = xi^2 v^2 gamma^2 w (sample {i})", y[i],
                   xis[i] * xis[i] * vs[i] * vs[i] * g2(vs[i]) * th.wHighT(Ts[i]), conc_rtol=1e-7)
        h.prove_eq(f"integration variable is xi (sample {i})", x[i], xis[i])
    S = [Sym(t) if t is not None else h.values[n] for n, t, lo, hi in h.inputs if n.startswith("simpson")][0]
    h.prove_eq("kappa = 4 int / (vw^3 w_n alpha_n)", kappa,
               4 * S / (vw * vw * vw * th.wHighT(hy.Tnucl) * hy.template.alN), conc_rtol=1e-7)


def ivp_samples(h):
    vs, xis, Ts = [], [], []
    for n, t, lo, hi in h.inputs:
        v = Sym(t) if t is not None else h.values[n]
        if n.startswith("ivp_v"):
            vs.append(v)
        elif n.startswith("ivp_xi"):
            xis.append(v)
        elif n.startswith("ivp_T"):
            Ts.append(v)
    return vs, xis, Ts


AX = [arctan_axioms]

HARNESSES = [
    HarnessDef("lorentz-helpers", h_helpers, [dict()], max_paths=10, timeout_s=30,
               encodes=[HL.gammaSq, HL.boostVelocity], random_validation=3),
    HarnessDef("shockDE", h_shockde, [dict(wave="shock"), dict(wave="rarefaction")], max_paths=20,
               timeout_s=60, encodes=[HY.Hydrodynamics.shockDE], random_validation=3, concrete_alarms=False),
    HarnessDef("solveHydroShock", h_solveshock, [dict()], max_paths=300, timeout_s=60, axioms=AX,
               encodes=[HY.Hydrodynamics.solveHydroShock], random_validation=0, concrete_alarms=False),
    HarnessDef("findMatching-decisions", h_findmatching, [dict()], max_paths=300, timeout_s=60, axioms=AX,
               encodes=[HY.Hydrodynamics.findMatching], random_validation=0, concrete_alarms=False),
    HarnessDef("efficiency-factor", h_kappa, [dict()], max_paths=100, timeout_s=60, axioms=AX,
               encodes=[HY.Hydrodynamics.efficiencyFactor], random_validation=0, concrete_alarms=False),
]

MANIFEST = {
    "text": "For all arguments and every EOS (w, cs^2 uninterpreted) z3 proves: gammaSq and "
            "boostVelocity are the Lorentz factor and velocity addition; shockDE is the "
            "reciprocal / quotient of the independently written similarity-variable system "
            "(shock and rarefaction wave); solveHydroShock integrates from the boosted v+ at "
            "(vw,T+), stops on mu(xi,v) xi = cs^2 and returns a Tn for which the energy flux is "
            "continuous across the front written independently; findMatching returns a v+ with "
            "vanishing shock mismatch and falls back to the template only when neither tried "
            "end nor the re-solved upper end gives a sign change; the efficiency factor is "
            "4 int xi^2 v^2 gamma^2 w dxi /(vw^3 w_n alpha_n) on the same profile.",
    "note": "RK45/Simpson accuracy and any comparison with an independent numerical integrator "
            "are outside (numerical, not solver-decidable); ODE integrator is a contract stub.",
}
