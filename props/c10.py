"""C10 -- equation of state is thermodynamically consistent and smoothly extrapolated.

The real `Thermodynamics` class (built with object.__new__, its two FreeEnergy tables
replaced by uninterpreted functions P(T), P'(T), P''(T) per phase -- the spline contract)
runs `setExtrapolate` and all p/dp/ddp/e/de/w/csq methods on a symbolic temperature and
symbolic range ends.  Each of the three paths (below, inside, above the tabulated range)
gives closed-form terms; z3 decides the thermodynamic identities, that dp/ddp are the
derivatives of the returned p (symbolic differentiation of the term the code built, pow as an
uninterpreted function with instantiated exponent-shift axioms), and continuity at both
range ends (substitution T:=TMin / T:=TMax into the branch formula).
"""
import math

import numpy as np
import z3

import WallGo.thermodynamics as TH

from symx import axioms, core, diff
from symx.core import AND, Cond, Sym, close, eq, gt, lt
from symx.harness import HarnessDef, bare

EXPLANATION = __doc__
BOUNDS = {"paths": "3 per phase and method (T<TMin, inside, T>TMax); both phases",
          "inputs": "T, TMin<TMax in (0.01, 1e4) symbolic; table values: arbitrary functions with "
                    "P'>0, P''>0 at the range ends (so that w>0, 0<cs^2)"}
OUTSIDE = ["that the spline derivative is the derivative of the spline (scipy CubicSpline "
           "contract: P' and P'' are taken as the derivatives of P)",
           "that the table is the minimum of the potential (C11)",
           "float rounding of pow"]
ASSUMPTIONS = ["pow(b,e) is an uninterpreted function constrained only by pow(b,e+1)=b*pow(b,e), "
               "pow>0 for b>0, pow(b,0)=1, pow(b,1)=b (true of real powers)",
               "FreeEnergy.__call__/derivative return P, P', P'' of one smooth function per phase"]


class _FEVal:
    def __init__(self, v):
        self.veffValue = v


class _FE:
    """FreeEnergy stand-in: veffValue = -P(T); derivatives -P', -P''."""

    def __init__(self, h, fns, tmin, tmax):
        self.h = h
        self.fns = fns
        self.minPossibleTemperature = [tmin, False]
        self.maxPossibleTemperature = [tmax, False]

    def __call__(self, T):
        return _FEVal(-self.fns[0](T))

    def derivative(self, T, order=1):
        v = self.fns[order](T)
        # thermodynamic stability granted by the property's quantifier: w = T P' > 0 and
        # cs^2 = P'/(T P'') > 0 wherever the table is consulted
        self.h.assume(gt(v, 0), "P'(T)>0 and P''(T)>0 wherever the table is consulted")
        return _FEVal(-v)


def _default_eos(k):
    a, b, c = (0.9, 0.05, 0.1) if k == "H" else (0.7, 0.08, -0.2)
    return (lambda T: a / 3 * T**4 + b * T**2 - c,
            lambda T: 4 * a / 3 * T**3 + 2 * b * T,
            lambda T: 4 * a * T**2 + 2 * b)


def conc_pow(b, e):
    return math.pow(b, e)


def build(h):
    h.patch(TH, float=__import__("symx.npx", fromlist=["x"]).symfloat, pow=core.sym_pow)
    th = bare(TH.Thermodynamics)
    fns = {}
    for k in ("H", "L"):
        d = _default_eos(k)
        fns[k] = [h.ufun(f"{n}{k}", d[i]) for i, n in enumerate(("P", "dP", "ddP"))]
    rng = {}
    for k in ("H", "L"):
        tmin = h.real(f"TMin{k}", 0.01, 1e4, default=1.0 if k == "H" else 0.8)
        tmax = h.real(f"TMax{k}", 0.01, 1e4, default=2.0 if k == "H" else 2.5)
        h.assume(gt(tmax, tmin))
        rng[k] = (tmin, tmax)
    th.freeEnergyHigh = _FE(h, fns["H"], *rng["H"])
    th.freeEnergyLow = _FE(h, fns["L"], *rng["L"])
    for k in ("H", "L"):
        for T0 in rng[k]:
            h.assume(AND(gt(fns[k][1](T0), 0), gt(fns[k][2](T0), 0)),
                     "P'>0 and P''>0 at the ends of the tabulated range (w>0, cs^2>0)")
    th.setExtrapolate()
    return th, fns, rng


def _rules(fns_names):
    """derivative rules for the EOS UFs: d P = dP, d dP = ddP."""
    rules = {}
    for k in ("H", "L"):
        dP = z3.Function(f"dP{k}", core.R, core.R)
        ddP = z3.Function(f"ddP{k}", core.R, core.R)
        rules[f"P{k}"] = (lambda dP: lambda ch, i: core.cur().app(dP, ch[0]))(dP)
        rules[f"dP{k}"] = (lambda ddP: lambda ch, i: core.cur().app(ddP, ch[0]))(ddP)
    return rules


def h_phase(h, phase):
    th, fns, rng = build(h)
    k = "H" if phase == "High" else "L"
    tmin, tmax = rng[k]
    T = h.real("T", 0.005, 2e4, default=h.rng.choice([0.5, 1.5, 3.0]))
    m = {n: getattr(th, f"{n}{phase}T") for n in ("p", "dp", "ddp", "e", "de", "w", "csq")}
    p, dp, ddp = m["p"](T), m["dp"](T), m["ddp"](T)
    e, de, w, csq = m["e"](T), m["de"](T), m["w"](T), m["csq"](T)
    for n, v in (("p", p), ("dp", dp), ("ddp", ddp), ("csq", csq)):
        h.observe(n, v)
    sc = 1.0
    if not h.symbolic:
        sc = abs(T * dp) + abs(p) + 1e-30
    h.prove_eq("e = T dp - p", e, T * dp - p, conc_scale=sc)
    h.prove_eq("w = T dp", w, T * dp, conc_scale=sc)
    h.prove_eq("w = e + p", w, e + p, conc_scale=sc)
    h.prove_eq("de = T ddp", de, T * ddp)
    h.prove_eq("csq = dp/de", csq, dp / de, conc_rtol=1e-7)
    # derivative consistency
    if h.mode == "sym":
        rules = _rules(None)
        d1 = diff.diff(p, T, rules)
        d2 = diff.diff(dp, T, rules)
        h.prove("dp = d/dT p", eq(dp, d1))
        h.prove("ddp = d/dT dp", eq(ddp, d2))
    elif h.mode == "conc":
        inside = tmin <= T <= tmax
        if not inside:
            hh = 1e-5 * T
            ok = (T + hh < tmin or T - hh > tmax)
            if ok:
                fd1 = (m["p"](T + hh) - m["p"](T - hh)) / (2 * hh)
                fd2 = (m["dp"](T + hh) - m["dp"](T - hh)) / (2 * hh)
                h.prove("dp = d/dT p", None, conc=lambda: abs(fd1 - dp) <= 1e-6 * (abs(dp) + abs(p) / T))
                h.prove("ddp = d/dT dp", None, conc=lambda: abs(fd2 - ddp) <= 1e-6 * (abs(ddp) + abs(dp) / T))
    # inside the range the pressure is minus the tabulated free energy
    if h.mode == "sym":
        # which branch are we on?  decided by the path; state the inside claim guarded
        inside = AND(core.ge(T, tmin), core.le(T, tmax))
        h.prove("inside: p = -Veff(min)", core.IMPLIES(inside, eq(p, fns[k][0](T))))
        h.prove("inside: dp = table", core.IMPLIES(inside, eq(dp, fns[k][1](T))))
        h.prove("inside: ddp = table", core.IMPLIES(inside, eq(ddp, fns[k][2](T))))
        # continuity: substitute T := range end into the branch formulas of this path
        for end, label in ((tmin, "TMin"), (tmax, "TMax")):
            on_branch = lt(T, tmin) if label == "TMin" else gt(T, tmax)
            # only meaningful on the path where T is beyond that end
            e_ = core.cur()
            if _path_implies(e_, on_branch.z):
                for n, val, tab in (("p", p, fns[k][0](end)), ("dp", dp, fns[k][1](end)),
                                    ("ddp", ddp, fns[k][2](end)),
                                    ("csq", csq, fns[k][1](end) / (end * fns[k][2](end)))):
                    lim = z3.substitute(core.toz3(val), (T.t, end.t))
                    _register_pow_apps(e_, lim)
                    h.prove(f"continuity of {n} at {label}", Cond(z=lim == core.toz3(tab)),
                            drop_pc=True)
    else:
        eps = 1e-9
        for end, label, side in ((tmin, "TMin", -1), (tmax, "TMax", +1)):
            if (side < 0 and T < tmin) or (side > 0 and T > tmax):
                Tb = end * (1 + side * eps)
                wend = abs(end * m["dp"](end))
                nat = {"p": wend, "dp": wend / end, "ddp": wend / end**2, "csq": 1.0}
                for n in ("p", "dp", "ddp", "csq"):
                    a, b = m[n](Tb), m[n](end)
                    h.prove(f"continuity of {n} at {label}", None,
                            conc=(lambda a=a, b=b, n=n: abs(a - b) <= 1e-6 * (abs(a) + abs(b) + nat[n])))


def _path_implies(e, cond):
    s = z3.Solver()
    s.set("timeout", 5000)
    s.add(e.constraints())
    s.add(z3.Not(cond))
    return str(s.check()) == "unsat"


def _register_pow_apps(e, term):
    """make pow applications created by substitution known to the axiom generator"""
    seen = set()

    def walk(t):
        if t.get_id() in seen:
            return
        seen.add(t.get_id())
        if z3.is_app(t) and t.decl().kind() == z3.Z3_OP_UNINTERPRETED and t.decl().name() == "pow":
            e.app(core.POW, *t.children())
        for c in t.children():
            walk(c)
    walk(term)


def h_alpha(h):
    """alpha(T) = (eH - eL - (pH - pL)/csqL) / (3 wH), from the real methods, all paths."""
    th, fns, rng = build(h)
    T = h.real("T", 0.005, 2e4, default=1.5)
    al = th.alpha(T)
    eH, eL, pH, pL = th.eHighT(T), th.eLowT(T), th.pHighT(T), th.pLowT(T)
    h.prove_eq("alpha definition", al, (eH - eL - (pH - pL) / th.csqLowT(T)) / (3 * th.wHighT(T)),
               conc_rtol=1e-7)
    h.observe("alpha", al)


from props.c18 import h_rebuild as _h_rebuild
from props.c11 import h_trace as _h_trace
import WallGo.freeEnergy as _FEmod
import WallGo.interpolatableFunction as _IF

HARNESSES = [
    # dp/dT, d2p/dT2 come from the derivative splines of the free-energy table (FreeEnergy is an
    # InterpolatableFunction): after a re-trace they must be those of the new table
    HarnessDef("free-energy-table-rebuild", _h_rebuild, [dict(k=2)], [dict(k=2), dict(k=3)], max_paths=40, timeout_s=30,
               encodes=[_IF.InterpolatableFunction._interpolate, _IF.InterpolatableFunction.derivative], random_validation=1),
    # "inside the range the pressure is minus the effective potential at the phase's minimum": the
    # table the phase tracer hands to the spline holds, at every node (the starting node included),
    # the potential AT the tabulated field values (harness shared with C11)
    HarnessDef("free-energy-table-values", _h_trace, [dict(nf=1, paranoid=False, maxsteps=1)],
               [dict(nf=1, paranoid=False, maxsteps=1), dict(nf=2, paranoid=True, maxsteps=1)], max_paths=30000, timeout_s=30,
               encodes=[_FEmod.FreeEnergy.tracePhase], random_validation=0, concrete_alarms=False, feas_timeout_ms=300),
    HarnessDef("phase", h_phase, [dict(phase="High"), dict(phase="Low")], max_paths=40,
               timeout_s=60, axioms=[axioms.pow_axioms],
               encodes=[TH.Thermodynamics.setExtrapolate] + [
                   getattr(TH.Thermodynamics, f"{n}{ph}T") for ph in ("High", "Low")
                   for n in ("p", "dp", "ddp", "e", "de", "w", "csq")], random_validation=6),
    HarnessDef("alpha", h_alpha, [dict()], max_paths=40, timeout_s=20, axioms=[axioms.pow_axioms],
               encodes=[TH.Thermodynamics.alpha], random_validation=3),
]

MANIFEST = {
    "text": "The real Thermodynamics methods are executed on symbolic T, TMin, TMax with the "
            "tabulated free energy an arbitrary function (UF with its derivatives); on each of "
            "the three range paths per phase z3 proves e=T dp-p, w=T dp, de=T ddp, cs^2=dp/de, "
            "that dp and ddp are the T-derivatives of the returned p (term differentiation), "
            "continuity of p, dp, ddp, cs^2 at both range ends, p=-Veff inside, and the alpha "
            "formula. All temperatures and all tables with P',P''>0 at the ends."
            " Every node of the table the tracer hands to the spline (the starting node included) holds the potential at the tabulated field values.",
    "note": "pow abstracted by a UF with exponent-shift axioms; spline derivative contract "
            "trusted; real arithmetic; literal 1/3.0 lifted to 1/3.",
}
