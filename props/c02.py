"""C02 -- energy and momentum flux are conserved across the wall.

`Hydrodynamics.matchDeflagOrHyb`, `matchDeton`, `vpvmAndvpovm`, `findHydroBoundaries` (general
EOS = uninterpreted p(T), p'(T), p''(T) per phase) and the template model's
`findHydroBoundaries` run on symbolic wall velocity, nucleation temperature and temperature
window.  scipy's iterations are contract stubs: the root they return is a fresh value with
"residual == 0" taken from the *real closure* the code handed to scipy.  z3 then decides that
the tuple the real post-processing returns carries equal energy and momentum flux on both
sides, and that c1, c2, velocityMid are those fluxes with the documented signs.
"""
import math

import numpy as np
import z3

import WallGo.hydrodynamics as HY
import WallGo.hydrodynamicsTemplateModel as HT
from WallGo.exceptions import WallGoError

from symx import axioms, core, npx
from symx.core import AND, OR, Cond, Sym, close, eq, ge, gt, le, lt, ne
from symx.harness import HarnessDef, bare
from props.hydrokit import Result, ScipyStubs, ThermoStub, tolerance_claims

EXPLANATION = __doc__
BOUNDS = {"paths": "<= 400 per harness (initial-guess branching, min(vw^2,cs^2), e+==e- guard)",
          "inputs": "vw, v+ in (0,1), Tn>0, hydro window 0<tmin<1<tmax symbolic; EOS arbitrary "
                    "functions with w>0, 0<cs^2<1 wherever consulted"}
OUTSIDE = ["convergence of hybr/brentq/Bounded (stubs return exact zeros / minimisers)",
           "acceptance of a non-zero residual (sum(fun^2)<1e-6): the claim is for residual = 0",
           "existence of an exact matching / the template fallback of findMatching (needs global "
           "properties of the EOS)", "float rounding"]
ASSUMPTIONS = ["tan/arctan of the temperature mapping are UFs with |arctan|<pi/2 and "
               "arctan(tan(x))=x where both occur"]


def arctan_axioms(e):
    out = []
    half = z3.RealVal(core.lift_float(math.pi / 2))
    for (a,), app in e.apps.get("arctan", []):
        out += [app < half, app > -half]
        for (b,), app2 in e.apps.get("tan", []):
            if a.eq(app2):
                out.append(z3.Implies(z3.And(b < half, b > -half), app == b))
    return out


class TemplateStub:
    """what Hydrodynamics reads from its template model while matching"""

    def __init__(self, h, Tn, free=False):
        self.h = h
        self.free = free
        if free:
            # every branch of the initial-guess logic is explored
            self.vMin = h.real("tmpl_vMin", 0, 1, strict=False, default=0.0)
            self.vJ = h.real("tmpl_vJ", 0, 1, default=0.7)
            self.cb2 = h.real("tmpl_cb2", 0, 1, default=1 / 3)
        else:
            # the initial guess only enters the positive scale factor of the residual:
            # pin the template's numbers so that its branching is decided
            self.vMin, self.vJ, self.cb2 = 0.0, 2.0, 1 / 3.0
        self.alN = h.real("tmpl_alN", 0, 10, default=0.05)
        self.Tn = Tn

    def matchDeflagOrHybInitial(self, vw, vp):
        h = self.h
        if self.free and h.flag("tmpl_initial_fails"):
            raise WallGoError("stub: template initial guess failed")
        Tp0 = h.fresh("Tp0", 0, None, default=1.05 * float(core.unbox(self.Tn)) if not h.symbolic else None)
        Tm0 = h.fresh("Tm0", 0, None, default=1.0 * float(core.unbox(self.Tn)) if not h.symbolic else None)
        if not self.free:
            h.assume(gt(Tp0, Tm0))
            if vp is None:
                # keep the guess inside (Tm0, gamma_- Tm0] so that the LTE re-centering branch
                # of the initial-guess logic is decided (the guess only scales the residual)
                th = self.th
                h.assume(AND(le(Tp0 * Tp0 * (1 - vw * vw), Tm0 * Tm0),
                             le(Tp0 * Tp0 * (1 - th.csqLowT(Tm0)), Tm0 * Tm0)))
        return [Tp0, Tm0]


def make_hydro(h, stubs=None, tranges=None, free_guess=False):
    sy = npx.symfloat
    h.patch(HY, float=sy, np=npx.NP())
    Tn = h.real("Tn", 0.01, 1e4, default=1.0)
    th = ThermoStub(h, Tn, tranges=tranges)
    hy = bare(HY.Hydrodynamics)
    hy.thermodynamics = th
    hy.Tnucl = Tn
    tmin = h.real("tmin", 0.01, 1, default=0.5)
    tmax = h.real("tmax", 1, 100, default=2.0)
    hy.TMaxHydro = tmax * Tn
    hy.TMinHydro = tmin * Tn
    hy.TMaxHighT = th.freeEnergyHigh.maxPossibleTemperature[0]
    hy.TMinHighT = th.freeEnergyHigh.minPossibleTemperature[0]
    hy.TMaxLowT = th.freeEnergyLow.maxPossibleTemperature[0]
    hy.TMinLowT = th.freeEnergyLow.minPossibleTemperature[0]
    hy.rtol, hy.atol = 1e-6, 1e-10
    hy.template = TemplateStub(h, Tn, free=free_guess)
    hy.template.th = th
    hy.vBracketLow = 1e-3
    hy.doesPhaseTraceLimitvmax = [False, False]
    hy.success = False
    st = stubs or ScipyStubs(h)
    h.patch_always(HY, root=st.root, root_scalar=st.root_scalar, minimize_scalar=st.minimize_scalar)
    return hy, th, st


def gsq(v):
    return 1 / (1 - v * v)


def flux_claims(h, th, vp, vm, Tp, Tm, tag=""):
    wp, wm = th.wHighT(Tp), th.wLowT(Tm)
    pp, pm = th.pHighT(Tp), th.pLowT(Tm)
    h.assume(ne(th.eHighT(Tp), th.eLowT(Tm)),
             "e+(T+) != e-(T-) at the returned temperatures (the `(p+-p-)*1e50` guard of "
             "vpvmAndvpovm for exactly equal energy densities is outside the claim)")
    h.assume(AND(gt(th.eLowT(Tm) + pp, 0), gt(th.eHighT(Tp) + pm, 0)),
             "mixed enthalpies e-(T-)+p+(T+) and e+(T+)+p-(T-) are positive (true of every EOS "
             "with a sensible vacuum energy; otherwise v+/v- < 0)")
    fe_p, fe_m = wp * gsq(vp) * vp, wm * gsq(vm) * vm
    fm_p, fm_m = wp * gsq(vp) * vp * vp + pp, wm * gsq(vm) * vm * vm + pm
    sc = None
    if not h.symbolic:
        sc = abs(fe_p) + abs(fe_m) + abs(pp) + abs(pm)
    h.prove_eq(tag + "energy flux equal on both sides", fe_p, fe_m, conc_scale=sc, conc_rtol=1e-6)
    h.prove_eq(tag + "momentum flux equal on both sides", fm_p, fm_m, conc_scale=sc, conc_rtol=1e-6)
    return fe_p, fm_p, fe_m, fm_m


def h_deflag(h, guess):
    hy, th, st = make_hydro(h, free_guess=(guess == "free"))
    vw = h.real("vw", 0, 1, default=0.45)
    vp_in = h.real("vp", 0, 1, default=0.35)
    h.assume(le(vp_in, vw), "v+ <= vw on the deflagration/hybrid branch")
    vp, vm, Tp, Tm = hy.matchDeflagOrHyb(vw, vp_in)
    if not hy.success:
        return  # the caller is told the matching did not converge
    vp, vm, Tp, Tm = (core.unbox(np.asarray(x)) for x in (vp, vm, Tp, Tm))
    for n, v in (("vp", vp), ("vm", vm), ("Tp", Tp), ("Tm", Tm)):
        h.observe(n, v)
    h.prove_eq("returned v+ is the requested v+", vp, vp_in)
    h.prove("temperatures inside the hydro window", AND(
        gt(Tp, hy.TMinHydro), lt(Tp, hy.TMaxHydro), gt(Tm, hy.TMinHydro), lt(Tm, hy.TMaxHydro)))
    # v- = vw (deflagration) or the sound speed behind the wall (hybrid)
    cs2 = th.csqLowT(Tm)
    h.prove("v-^2 = min(vw^2, cs-^2)", OR(AND(eq(vm * vm, vw * vw), le(vw * vw, cs2)),
                                           AND(eq(vm * vm, cs2), le(cs2, vw * vw))))
    h.assume(lt(vp, 1))
    flux_claims(h, th, vp, vm, Tp, Tm)


def h_deton(h):
    hy, th, st = make_hydro(h, stubs=ScipyStubs(h, nondet_converged=True))
    vw = h.real("vw", 0, 1, default=0.9)
    try:
        vp, vm, Tp, Tm = hy.matchDeton(vw)
    except WallGoError:
        return  # specified outcome: minimiser failed / no solution / root not converged
    vp, vm, Tp, Tm = (core.unbox(np.asarray(x)) for x in (vp, vm, Tp, Tm))
    for n, v in (("vm", vm), ("Tm", Tm)):
        h.observe(n, v)
    tolerance_claims(h, st, hy, "matchDeton: ")
    h.prove_eq("detonation: v+ = vw", vp, vw)
    h.prove_eq("detonation: T+ = Tn", Tp, hy.Tnucl)
    h.prove("detonation: T- in [Tn, TMaxHydro]", AND(ge(Tm, hy.Tnucl), le(Tm, hy.TMaxHydro)))
    h.assume(AND(gt(vm, 0), lt(vm, 1)), "0 < v- < 1 (admissibility is C06's subject)")
    flux_claims(h, th, vp, vm, Tp, Tm)


def h_boundaries(h):
    """findHydroBoundaries: c1, c2, velocityMid from a matching that conserves the fluxes."""
    hy, th, st = make_hydro(h)
    vw = h.real("vw", 0, 1, default=0.5)
    hy.vMin = h.real("vMin", 0, 1, default=0.01)
    vp = h.real("m_vp", 0, 1, default=0.3)
    vm = h.real("m_vm", 0, 1, default=0.5)
    Tp = h.real("m_Tp", 0, None, default=1.1)
    Tm = h.real("m_Tm", 0, None, default=1.0)
    hy.findMatching = lambda v: (vp, vm, Tp, Tm)
    out = hy.findHydroBoundaries(vw)
    if bool(vw < hy.vMin) if not h.symbolic else _decided(vw, hy.vMin):
        h.prove("below vMin: all zeros", Cond(b=tuple(out) == (0, 0, 0, 0, 0)))
        return
    c1, c2, Tp_o, Tm_o, vmid = out
    wp, wm = th.wHighT(Tp), th.wLowT(Tm)
    # the matching handed over conserves both fluxes (established by the other harnesses)
    if h.symbolic:
        h.assume(AND(eq(wp * gsq(vp) * vp, wm * gsq(vm) * vm),
                     eq(wp * gsq(vp) * vp * vp + th.pHighT(Tp), wm * gsq(vm) * vm * vm + th.pLowT(Tm))),
                 "findMatching returns a flux-conserving tuple (matchDeflagOrHyb/matchDeton harnesses)")
    h.prove_eq("c1 = -w+ gamma+^2 v+", c1, -wp * gsq(vp) * vp)
    h.prove_eq("c2 = p+ + w+ gamma+^2 v+^2", c2, th.pHighT(Tp) + wp * gsq(vp) * vp * vp)
    if h.symbolic:
        h.prove_eq("c1 = -w- gamma-^2 v-", c1, -wm * gsq(vm) * vm)
        h.prove_eq("c2 = p- + w- gamma-^2 v-^2", c2, th.pLowT(Tm) + wm * gsq(vm) * vm * vm)
    h.prove_eq("velocityMid = -(v+ + v-)/2", vmid, -(vp + vm) / 2)
    h.prove("temperatures passed through", AND(eq(Tp_o, Tp), eq(Tm_o, Tm)))
    h.observe("c1", c1)
    h.observe("c2", c2)


def _decided(a, b):
    """the eager comparison the code already made on this path (cached in the engine)"""
    return bool(a < b)


def h_template_boundaries(h):
    """Template model: findHydroBoundaries builds c1, c2 from its own EOS
    w+ = wFromAlpha(alpha+) * wN, p+ from the template pressure."""
    h.patch(HT, float=npx.symfloat, np=npx.NP(), pow=core.sym_pow)
    t = bare(HT.HydrodynamicsTemplateModel)
    t.cs2 = h.real("cs2", 0.05, 0.5, default=1 / 3)
    t.cb2 = h.real("cb2", 0.05, 0.5, default=0.3)
    t.alN = h.real("alN", 1e-3, 0.3, default=0.05)
    t.psiN = h.real("psiN", 0.3, 1, default=0.9)
    t.wN = h.real("wN", 0.01, 1e4, default=2.0)
    t.pN = h.real("pN", -1e4, 1e4, default=0.4)
    t.Tnucl = h.real("Tn", 0.01, 1e4, default=1.0)
    t.nu = 1 + 1 / t.cb2
    t.mu = 1 + 1 / t.cs2
    t.vMin = h.real("vMin", 0, 1, strict=False, default=0.0)
    t.epsilon = t.wN * (1 / t.mu - (1 - 3 * t.alN) / t.nu)
    vw = h.real("vw", 0, 1, default=0.5)
    vp = h.real("m_vp", 0, 1, default=0.3)
    vm = h.real("m_vm", 0, 1, default=0.5)
    Tp = h.real("m_Tp", 0, None, default=1.1)
    Tm = h.real("m_Tm", 0, None, default=1.0)
    t.findMatching = lambda v: (vp, vm, Tp, Tm)
    out = t.findHydroBoundaries(vw)
    if (vw < t.vMin) if not h.symbolic else _decided(vw, t.vMin):
        return
    c1, c2, Tp_o, Tm_o, vmid = out
    # template EOS: w+(T) = wN (T/Tn)^mu ; p+(T) = pN + (w+(T) - wN)/mu
    wp = t.wN * (core.sym_pow(Tp / t.Tnucl, t.mu) if h.symbolic else (Tp / t.Tnucl) ** t.mu)
    pp = t.pN + (wp - t.wN) / t.mu
    h.prove_eq("template c1 = -w+ gamma+^2 v+", c1, -wp * gsq(vp) * vp, conc_rtol=1e-7)
    h.prove_eq("template c2 = p+ + w+ gamma+^2 v+^2", c2, pp + wp * gsq(vp) * vp * vp, conc_rtol=1e-7)
    h.prove_eq("template velocityMid = -(v+ + v-)/2", vmid, -(vp + vm) / 2)


AX = [arctan_axioms, axioms.pow_axioms]

HARNESSES = [
    HarnessDef("matchDeflagOrHyb", h_deflag, [dict(guess="fixed")],
               [dict(guess="fixed"), dict(guess="free")], max_paths=600, timeout_s=60, axioms=AX,
               encodes=[HY.Hydrodynamics.matchDeflagOrHyb, HY.Hydrodynamics.vpvmAndvpovm,
                        HY.Hydrodynamics._inverseMappingT, HY.Hydrodynamics._mappingT],
               random_validation=2, concrete_alarms=False),
    HarnessDef("matchDeton", h_deton, [dict()], max_paths=200, timeout_s=60, axioms=AX,
               encodes=[HY.Hydrodynamics.matchDeton, HY.Hydrodynamics.vpvmAndvpovm],
               random_validation=2, concrete_alarms=False),
    HarnessDef("findHydroBoundaries", h_boundaries, [dict()], max_paths=50, timeout_s=60,
               axioms=AX, encodes=[HY.Hydrodynamics.findHydroBoundaries], random_validation=2, concrete_alarms=False),
    HarnessDef("template-findHydroBoundaries", h_template_boundaries, [dict()], max_paths=50,
               timeout_s=60, axioms=AX,
               encodes=[HT.HydrodynamicsTemplateModel.findHydroBoundaries], random_validation=2, concrete_alarms=False),
]


def _late():
    # findMatching is where the exact (flux-conserving) matching is abandoned for the template's
    # approximate one: the decision logic (shared with C03; c03 imports this module) belongs here too
    from props.c03 import h_findmatching, AX as AX3
    HARNESSES.append(HarnessDef(
        "findMatching-exact-unless-impossible", h_findmatching, [dict()], max_paths=300, timeout_s=60, axioms=AX3,
        encodes=[HY.Hydrodynamics.findMatching], random_validation=0, concrete_alarms=False))

MANIFEST = {
    "text": "For every wall velocity, nucleation temperature, temperature window and every EOS "
            "(uninterpreted p, p', p'' with w>0, 0<cs^2<1), on every path of the real "
            "matchDeflagOrHyb / matchDeton post-processing z3 proves: if the residual the code "
            "handed to scipy vanishes at the returned root, the returned (v+,v-,T+,T-) carry "
            "equal energy and momentum flux; v-^2 = min(vw^2, cs-^2); temperatures lie in the "
            "window; c1, c2, velocityMid of findHydroBoundaries (general and template) are the "
            "fluxes with the documented signs on both sides."
            " findMatching abandons the exact matching for the template's approximate one only when neither the tried v+ ends nor the re-solved end v+ = cs+^2(T+)/vw nor the bounded search gives a sign change of the shock mismatch.",
    "note": "scipy iterations are contract stubs (exact zero of the real closure); non-zero "
            "accepted residuals, existence of solutions and the template fallback are outside; "
            "reals not floats.",
}
