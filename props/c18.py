"""C18 -- interpolated functions honour their evaluation contract for every call history.

The whole real `InterpolatableFunction` class runs on a concrete subclass whose
`_functionImplementation` is an uninterpreted function F_c(x) and whose cubic spline is a
model object (strictly-increasing / finiteness checks like scipy; value and derivatives are
uninterpreted functions S_table,c,order(x)).  The table abscissae, table values, evaluation
points and extension arguments are symbolic; every element of an input array forks into
below / inside / above the table, so all mask combinations are explored.
"""
import math
import os
import tempfile

import numpy as np
import z3

import WallGo.interpolatableFunction as IF
import WallGo.helpers as HL
from WallGo.interpolatableFunction import EExtrapolationType as EX, InterpolatableFunction

from symx import core, npx
from symx.core import AND, OR, Cond, Sym, eq, ge, gt, le, lt
from symx.harness import HarnessDef

EXPLANATION = __doc__
BOUNDS = {"table": "3 strictly increasing symbolic abscissae (4 in thorough), symbolic values",
          "return dimension": "1 and 2 (3 in thorough)",
          "input shapes": "scalar, (2,), (2,1), python list of 2",
          "modes": "all 16 lower/upper pairs", "extension": "0..2 points per side",
          "histories": "sequences of <= 3 operations from the listed set"}
OUTSIDE = ["interpolation accuracy of the cubic spline (numerical)",
           "float64 rounding inside linspace/arange (abscissae are reals)"]
ASSUMPTIONS = ["CubicSpline modelled by an object with scipy's input checks and uninterpreted "
               "values/derivatives per (table, component, order)",
               "in plain-float replays the real scipy CubicSpline is used"]


class SplineStub:
    """Model of scipy.interpolate.CubicSpline (symbolic modes only)."""
    counter = [0]

    def __init__(self, x, y, extrapolate=None, axis=0, _order=0, _id=None, _ncomp=None, _h=None):
        if _id is not None:
            self.id, self.order, self.ncomp, self.extrapolate, self.h = _id, _order, _ncomp, extrapolate, _h
            return
        x = np.asarray(x)
        y = np.asarray(y)
        if x.ndim != 1:
            raise ValueError("`x` must be 1-dimensional.")
        if x.shape[0] < 2:
            raise ValueError("`x` must contain at least 2 elements.")
        if x.shape[0] != y.shape[axis]:
            raise ValueError("The length of `y` along `axis` doesn't match the length of `x`")
        for v in np.ravel(y):
            if not isinstance(v, Sym) and not math.isfinite(v):
                raise ValueError("`y` must contain only finite values.")
        for i in range(x.shape[0] - 1):
            if not x[i + 1] > x[i]:
                raise ValueError("`x` must be strictly increasing sequence.")
        SplineStub.counter[0] += 1
        self.id = SplineStub.counter[0]
        self.order = 0
        self.ncomp = None if y.ndim == 1 else y.shape[1]
        self.extrapolate = extrapolate
        self.x, self.y = x, y
        self.h = None

    def _uf(self, c):
        return z3.Function(f"S{self.id}c{c}o{self.order}", core.R, core.R)

    def __call__(self, xq):
        xq = np.asarray(xq)
        comps = [0] if self.ncomp is None else list(range(self.ncomp))
        out = np.empty(xq.shape + (() if self.ncomp is None else (self.ncomp,)), dtype=object)
        for idx in np.ndindex(*xq.shape):
            for c in comps:
                v = Sym(core.cur().app(self._uf(c), core.toz3(xq[idx])))
                if self.ncomp is None:
                    out[idx] = v
                else:
                    out[idx + (c,)] = v
        return out

    def derivative(self, n=1):
        return SplineStub(None, None, self.extrapolate, _order=self.order + n, _id=self.id,
                          _ncomp=self.ncomp)


def make_function(h, k, nan_points=()):
    """concrete subclass: F_c(x) uninterpreted; returns NaN at the listed abscissae"""
    h.patch(IF, np=npx.NP(), CubicSpline=SplineStub)
    h.patch_numeric(HL)
    Fs = [h.ufun(f"F{c}", (lambda c: lambda x: math.sin(x + c) + 0.1 * x * x)(c)) for c in range(k)]

    class Fn(InterpolatableFunction):
        def _functionImplementation(self, x):
            x = np.asarray(x)
            out = np.empty(x.shape + ((k,) if k > 1 else ()), dtype=object if h.symbolic else float)
            for idx in np.ndindex(*x.shape):
                for c in range(k):
                    v = Fs[c](x[idx])
                    if k > 1:
                        out[idx + (c,)] = v
                    else:
                        out[idx] = v
            return out
    return Fn, Fs


def make_table(h, f, n, k, lo=-5.0, hi=5.0):
    xs = [h.real(f"t{i}", lo, hi, default=-1.0 + i) for i in range(n)]
    for i in range(n - 1):
        h.assume(lt(xs[i], xs[i + 1]), "table abscissae strictly increasing (representation invariant)")
    shape = (n, k) if k > 1 else (n,)
    vals = h.reals("y", shape, -10, 10)
    X = np.array(xs, dtype=object if h.symbolic else float)
    f.newInterpolationTableFromValues(X, vals)
    return xs, vals


MODES = [EX.NONE, EX.ERROR, EX.CONSTANT, EX.FUNCTION]


def _as_input(vals, shape):
    if shape == "scalar":
        return vals[0]
    if shape == "list":
        return list(vals)
    a = np.array(vals, dtype=object if any(isinstance(v, Sym) for v in vals) else float)
    if shape == "2x1":
        return a.reshape(2, 1)
    return a


def _expected(h, f, Fs, x, k, lower, upper, lo, hi):
    """oracle for one element: ('raise',) or ('val', [components])"""
    if bool(x >= lo) and bool(x <= hi):
        v = f._interpolatedFunction(np.asarray(x))
        return ("val", [v] if k == 1 else list(v))
    below = bool(x < lo)
    mode = lower if below else upper
    if lower == EX.ERROR and upper == EX.ERROR:
        return ("raise",)
    if mode == EX.ERROR:
        return ("raise",)
    if mode == EX.NONE or (lower == EX.NONE and upper == EX.NONE):
        return ("val", [Fs[c](x) for c in range(k)])
    if mode == EX.CONSTANT:
        v = f._interpolatedFunction(np.asarray(lo if below else hi))
        return ("val", [v] if k == 1 else list(v))
    v = f._interpolatedFunction(np.asarray(x))
    return ("val", [v] if k == 1 else list(v))


def h_evaluate(h, k, shape, lower, upper, n=3):
    lower, upper = MODES[lower], MODES[upper]
    Fn, Fs = make_function(h, k)
    f = Fn(bUseAdaptiveInterpolation=False, returnValueCount=k)
    f.setExtrapolationType(lower, upper)
    xs, vals = make_table(h, f, n, k)
    nin = 1 if shape == "scalar" else 2
    xq = [h.real(f"x{i}", -8, 8, default=[-3.0, 0.2][i]) for i in range(nin)]
    inp = _as_input(xq, shape)
    lo, hi = xs[0], xs[-1]
    exp = [_expected(h, f, Fs, x, k, lower, upper, lo, hi) for x in xq]
    want_raise = any(e[0] == "raise" for e in exp)
    try:
        res = f(inp)
        raised = False
    except ValueError as ex:
        if "Out of bounds" not in str(ex):
            raise
        raised = True
    h.prove("ValueError iff an element falls on an ERROR side", Cond(b=raised == want_raise))
    if raised or want_raise:
        return
    res = np.asarray(res)
    in_shape = np.shape(inp) if shape != "scalar" else ()
    h.prove("result shape = input shape (+ value axis)",
            Cond(b=res.shape == tuple(in_shape) + ((k,) if k > 1 else ())))
    if res.shape != tuple(in_shape) + ((k,) if k > 1 else ()):
        return
    flat = res.reshape((nin, k) if k > 1 else (nin,))
    for i, e in enumerate(exp):
        for c in range(k):
            got = flat[i, c] if k > 1 else flat[i]
            h.prove_eq(f"entry follows the rule of its side (element {i}, component {c})",
                       got, core.unbox(np.asarray(e[1][c])), conc_rtol=1e-9)
    h.prove("table untouched by evaluation", Cond(b=f.numPoints() == n))


def h_derivative(h, k, order, lower, upper):
    lower, upper = MODES[lower], MODES[upper]
    Fn, Fs = make_function(h, k)
    f = Fn(bUseAdaptiveInterpolation=False, returnValueCount=k)
    f.setExtrapolationType(lower, upper)
    xs, vals = make_table(h, f, 3, k, lo=-2.0, hi=2.0)
    xq = [h.real("x0", -2, 2, default=0.3), h.real("x1", 2.5, 6, default=4.0)]
    h.assume(AND(ge(xq[0], xs[0]), le(xq[0], xs[-1]), gt(xq[1], xs[-1] + 0.5)),
             "first element inside the table, second well above it")
    inp = np.array(xq, dtype=object if h.symbolic else float)
    res = np.asarray(f.derivative(inp, order=order))
    h.prove("derivative shape", Cond(b=res.shape == (2,) + ((k,) if k > 1 else ())))
    d_in = np.asarray(f._interpolatedDerivatives[order - 1](np.asarray(xq[0])))
    d_out = np.asarray(HL.derivative(f._evaluateOutOfBounds, np.asarray(xq[1]), n=order,
                                     epsilon=1e-16, scale=1.0))
    for c in range(k):
        h.prove_eq(f"inside element: spline derivative (component {c})",
                   res[0, c] if k > 1 else res[0], d_in[c] if k > 1 else d_in[()], conc_rtol=1e-7)
        h.prove_eq(f"outside element: finite difference of the out-of-range rule (component {c})",
                   res[1, c] if k > 1 else res[1], d_out[c] if k > 1 else d_out[()], conc_rtol=1e-6)


def h_extend(h, k, pmin, pmax, adaptive):
    Fn, Fs = make_function(h, k)
    f = Fn(bUseAdaptiveInterpolation=adaptive, returnValueCount=k)
    n = 3
    xs, vals = make_table(h, f, n, k)
    newMin = h.real("newMin", -20, 20, default=-4.0)
    newMax = h.real("newMax", -20, 20, default=5.0)
    f.extendInterpolationTable(newMin, newMax, pmin, pmax)
    pts = np.asarray(f._interpolationPoints)
    m = len(pts)
    inc = [lt(pts[i], pts[i + 1]) for i in range(m - 1)]
    h.prove("abscissae strictly increasing after extension", AND(*inc) if inc else Cond(b=True))
    h.prove_eq("rangeMin is the first abscissa", f.interpolationRangeMin(), pts[0])
    h.prove_eq("rangeMax is the last abscissa", f.interpolationRangeMax(), pts[-1])
    below = bool(newMin < xs[0]) and pmin > 0
    above = bool(newMax > xs[-1]) and pmax > 0
    h.prove("number of points", Cond(b=m == n + (pmin if below else 0) + (pmax if above else 0)))
    if below:
        h.prove_eq("table now starts at newMin", pts[0], newMin)
    if above:
        h.prove_eq("table now ends at newMax", pts[-1], newMax, conc_rtol=1e-12)
    # old rows survive unchanged and new rows hold F(x)
    old0 = (pmin if below else 0)
    for i in range(n):
        h.prove_eq(f"old abscissa {i} kept", pts[old0 + i], xs[i])
    V = np.asarray(f._interpolationValues)
    for i in list(range(old0)) + list(range(old0 + n, m)):
        for c in range(k):
            h.prove_eq(f"new row {i} holds F(x) (component {c})", V[i, c] if k > 1 else V[i],
                       Fs[c](pts[i]))
    for i in range(n):
        for c in range(k):
            h.prove_eq(f"old row {i} keeps its value (component {c})", V[old0 + i, c] if k > 1 else V[old0 + i],
                       vals[i, c] if k > 1 else vals[i])
    _same_table(h, f, "after extension")
    if adaptive:
        h.prove("pending adaptive data reset", Cond(b=f._directEvaluateCount == 0
                                                    and len(f._directlyEvaluatedAt) == 0))


def _same_table(h, f, when):
    """first and second derivative splines are those of the CURRENT table"""
    if not h.symbolic:
        d = f._interpolatedDerivatives
        xs = np.asarray(f._interpolationPoints, dtype=float)
        xm = 0.5 * (xs[0] + xs[-1])
        a = np.asarray(f._interpolatedFunction.derivative(1)(xm))
        b = np.asarray(d[0](xm))
        h.prove(f"derivative splines belong to the current table ({when})", Cond(b=bool(np.allclose(a, b, rtol=1e-12, atol=1e-12))))
        return
    cur = f._interpolatedFunction.id
    h.prove(f"derivative splines belong to the current table ({when})", Cond(
        b=all(getattr(d, "id", None) == cur for d in f._interpolatedDerivatives)
        and [d.order for d in f._interpolatedDerivatives] == [1, 2]))


def h_badpoints(h, k, n, pattern):
    """rows with a non-finite value are dropped individually"""
    Fn, Fs = make_function(h, k)
    f = Fn(bUseAdaptiveInterpolation=False, returnValueCount=k)
    xs = [h.real(f"t{i}", -5, 5, default=-2.0 + i) for i in range(n)]
    for i in range(n - 1):
        h.assume(lt(xs[i], xs[i + 1]))
    shape = (n, k) if k > 1 else (n,)
    vals = h.reals("y", shape, -10, 10)
    bad = [i for i in range(n) if pattern[i]]
    for i in bad:
        if k > 1:
            vals[i, k - 1] = float("nan")
        else:
            vals[i] = float("nan")
    f.newInterpolationTableFromValues(np.array(xs, dtype=object if h.symbolic else float), vals)
    keep = [i for i in range(n) if i not in bad]
    h.prove("points with non-finite values left out individually", Cond(b=f.numPoints() == len(keep)))
    if f.numPoints() == len(keep):
        pts = np.asarray(f._interpolationPoints)
        for j, i in enumerate(keep):
            h.prove_eq(f"kept abscissa {j}", pts[j], xs[i])
        h.prove_eq("rangeMin", f.interpolationRangeMin(), xs[keep[0]])
        h.prove_eq("rangeMax", f.interpolationRangeMax(), xs[keep[-1]])


def h_schedule(h, k, pattern):
    """scheduleForInterpolation counts exactly the finite evaluations"""
    Fn, Fs = make_function(h, k)
    f = Fn(bUseAdaptiveInterpolation=True, returnValueCount=k)
    f._evaluationsUntilAdaptiveUpdate = 1000
    n = len(pattern)
    xs = [h.real(f"x{i}", -5 + 3 * i, -3 + 3 * i, default=-4.0 + 3 * i) for i in range(n)]
    X = np.array(xs, dtype=object if h.symbolic else float)
    fx = h.reals("fx", (n, k) if k > 1 else (n,), -10, 10)
    for i in range(n):
        if pattern[i]:
            if k > 1:
                fx[i, 0] = float("nan")
            else:
                fx[i] = float("nan")
    f.scheduleForInterpolation(X, fx)
    good = [i for i in range(n) if not pattern[i]]
    h.prove("pending count = number of finite evaluations", Cond(b=f._directEvaluateCount == len(good)))
    h.prove("pending points = the finite ones", Cond(b=len(f._directlyEvaluatedAt) == len(good)))


def h_adaptive(h, k):
    """two direct evaluations outside the table trigger an adaptive extension; afterwards the
    invariants hold and the evaluated points lie inside the new table"""
    Fn, Fs = make_function(h, k)
    f = Fn(bUseAdaptiveInterpolation=True, initialInterpolationPointCount=5, returnValueCount=k)
    xs, vals = make_table(h, f, 3, k)
    f._evaluationsUntilAdaptiveUpdate = 2
    a = h.real("a", -9, 9, default=-4.0)
    b = h.real("b", -9, 9, default=6.0)
    h.assume(AND(lt(a, xs[0]), gt(b, xs[-1])), "one evaluation below and one above the table")
    f(a)
    h.prove("one pending evaluation", Cond(b=f._directEvaluateCount == 1 and f.numPoints() == 3))
    f(b)
    pts = np.asarray(f._interpolationPoints)
    m = len(pts)
    h.prove("adaptive update extended the table on both sides", Cond(b=m == 5))
    inc = [lt(pts[i], pts[i + 1]) for i in range(m - 1)]
    h.prove("abscissae strictly increasing after adaptive update", AND(*inc))
    h.prove("pending data reset", Cond(b=f._directEvaluateCount == 0))
    _same_table(h, f, "after an adaptive update")
    h.prove("evaluated points now inside the table",
            AND(le(f.interpolationRangeMin(), a), ge(f.interpolationRangeMax(), b)))
    # a later call inside the new range is answered by the (new) spline
    r = np.asarray(f(a))
    s = np.asarray(f._interpolatedFunction(np.asarray(a)))
    for c in range(k):
        h.prove_eq(f"later call uses the new table (component {c})", r[c] if k > 1 else r[()],
                   s[c] if k > 1 else s[()])


def h_midcall(h, k, upper):
    """one call with points on both sides of the table while an adaptive update is due: the direct
    evaluation of the lower points (lower mode NONE) triggers the update in the MIDDLE of the call and
    the table grows past a point that was above it when the call was made.  Every element of the
    answer is still produced by the mode of the side it was on at call time: ERROR raises, the other
    modes write a value (none is left unwritten)."""
    Fn, Fs = make_function(h, k)
    f = Fn(bUseAdaptiveInterpolation=True, initialInterpolationPointCount=5, returnValueCount=k)
    xs, vals = make_table(h, f, 3, k)
    f._evaluationsUntilAdaptiveUpdate = 2
    far = h.real("far", -9, 9, default=7.0)
    a = h.real("a", -9, 9, default=-4.0)
    c = h.real("c", -9, 9, default=5.5)
    h.assume(AND(lt(a, xs[0]), gt(c, xs[-1]), lt(c, far)), "a below the table, c above it, an earlier direct evaluation beyond c")
    f(far, bUseInterpolatedValues=False)     # pending data for the next adaptive update
    h.prove("one pending evaluation, table unchanged", Cond(b=f._directEvaluateCount == 1 and f.numPoints() == 3))
    f.setExtrapolationType(MODES[0], MODES[upper])
    X = np.array([a, c], dtype=object if h.symbolic else float)
    try:
        r = np.asarray(f(X))
        raised = False
    except ValueError:
        raised = True
    h.prove("upper mode ERROR: a point above the table at call time raises", Cond(b=raised == (MODES[upper] == EX.ERROR)))
    if raised:
        return
    h.prove("shape", Cond(b=r.shape == ((2, k) if k > 1 else (2,))))
    flat = [r[1, cc] for cc in range(k)] if k > 1 else [r[1]]
    ok = all((v is not None) and (isinstance(v, Sym) or (isinstance(v, (int, float, np.floating)) and np.isfinite(v))) for v in flat)
    h.prove("the element above the table is written (a value prescribed by the upper mode, not left over memory)", Cond(b=bool(ok)))
    if ok and MODES[upper] in (EX.CONSTANT, EX.FUNCTION):
        # the table current when the upper side is served (the update has happened by then)
        at = f.interpolationRangeMax() if MODES[upper] == EX.CONSTANT else c
        want = np.asarray(f.evaluateInterpolation(np.asarray(at)))
        for cc in range(k):
            h.prove_eq(f"upper mode {MODES[upper].name}: the spline of the current table at "
                       f"{'its upper end' if MODES[upper] == EX.CONSTANT else 'the point'} (component {cc})",
                       flat[cc], want[cc] if k > 1 else want[()])
    lowflat = [r[0, cc] for cc in range(k)] if k > 1 else [r[0]]
    for cc in range(k):
        h.prove_eq(f"the element below the table is the function itself (component {cc})", lowflat[cc], Fs[cc](a))
    if ok and MODES[upper] == EX.NONE:
        for cc in range(k):
            h.prove_eq(f"upper mode NONE: the function itself (component {cc})", flat[cc], Fs[cc](c))


def h_modechange(h, k, seq):
    """mode changes rebuild the spline on the same table; evaluation afterwards follows the
    new modes"""
    Fn, Fs = make_function(h, k)
    f = Fn(bUseAdaptiveInterpolation=False, returnValueCount=k)
    xs, vals = make_table(h, f, 3, k)
    x = h.real("x", -8, 8, default=-3.5)
    h.assume(lt(x, xs[0]))
    for lower, upper in seq:
        f.setExtrapolationType(MODES[lower], MODES[upper])
        h.prove("table kept by mode change", Cond(b=f.numPoints() == 3))
        _same_table(h, f, "after a mode change")
    lower, upper = MODES[seq[-1][0]], MODES[seq[-1][1]]
    e = _expected(h, f, Fs, x, k, lower, upper, xs[0], xs[-1])
    try:
        r = np.asarray(f(x))
        raised = False
    except ValueError:
        raised = True
    h.prove("error iff the current lower mode says so", Cond(b=raised == (e[0] == "raise")))
    if not raised and e[0] == "val":
        for c in range(k):
            h.prove_eq(f"value follows the current modes (component {c})", r[c] if k > 1 else r[()],
                       core.unbox(np.asarray(e[1][c])))


def h_rebuild(h, k):
    """a second table on the same object (re-trace / new range) replaces value AND derivative splines"""
    Fn, Fs = make_function(h, k)
    f = Fn(bUseAdaptiveInterpolation=False, returnValueCount=k)
    xs, vals = make_table(h, f, 3, k)
    xs2 = [h.real(f"u{i}", -9, 9, default=-3.0 + 2 * i) for i in range(4)]
    for i in range(3):
        h.assume(lt(xs2[i], xs2[i + 1]))
    vals2 = h.reals("y2", (4, k) if k > 1 else (4,), -10, 10)
    f.newInterpolationTableFromValues(np.array(xs2, dtype=object if h.symbolic else float), vals2)
    h.prove("second table installed", Cond(b=f.numPoints() == 4))
    _same_table(h, f, "after a second table")
    x = h.real("x", -9, 9, default=0.1)
    h.assume(AND(ge(x, xs2[0]), le(x, xs2[-1])))
    d = np.asarray(f.derivative(np.asarray(x), order=1))
    want = np.asarray(f._interpolatedFunction.derivative(1)(np.asarray(x)))
    for c in range(k):
        h.prove_eq(f"derivative() differentiates the current spline (component {c})", d[c] if k > 1 else d[()],
                   want[c] if k > 1 else want[()])


def h_file(h, k):
    """write + read reproduces the same function (concrete data, real scipy)"""
    if h.symbolic:
        return
    import scipy.interpolate

    class Fn(InterpolatableFunction):
        def _functionImplementation(self, x):
            x = np.asarray(x)
            if k == 1:
                return np.sin(x)
            return np.stack([np.sin(x + c) for c in range(k)], axis=-1)
    f = Fn(bUseAdaptiveInterpolation=False, returnValueCount=k)
    f.newInterpolationTable(-2.0, 3.0, 40)
    d = tempfile.mkdtemp(prefix="verif_c18_")
    try:
        p = os.path.join(d, "table.txt")
        f.writeInterpolationTable(p)
        g = Fn(bUseAdaptiveInterpolation=False, returnValueCount=k)
        g.readInterpolationTable(p)
        xs = np.linspace(-2.0, 3.0, 17)
        a, b = np.asarray(f(xs)), np.asarray(g(xs))
        h.prove("round trip: same number of points", Cond(b=f.numPoints() == g.numPoints()))
        h.prove("round trip: same shape", Cond(b=a.shape == b.shape))
        h.prove("round trip: same values", Cond(b=bool(np.all(np.abs(a - b) <= 1e-12))))
    finally:
        for fn in os.listdir(d):
            os.remove(os.path.join(d, fn))
        os.rmdir(d)


_ALLM = [(l, u) for l in range(4) for u in range(4)]
_EQ = [dict(k=k, shape=s, lower=l, upper=u) for k in (1, 2) for s in ("scalar", "1d")
       for (l, u) in _ALLM] + \
      [dict(k=k, shape=s, lower=l, upper=u) for k in (1, 2) for s in ("2x1", "list")
       for (l, u) in [(0, 0), (2, 3), (3, 2), (1, 0)]]
_ET = [dict(k=k, shape=s, lower=l, upper=u) for k in (1, 2, 3) for s in ("scalar", "1d", "2x1", "list")
       for (l, u) in _ALLM]
_DQ = [dict(k=1, order=1, lower=0, upper=0), dict(k=2, order=2, lower=2, upper=2),
       dict(k=1, order=1, lower=3, upper=3)]
_DT = [dict(k=k, order=o, lower=l, upper=u) for k in (1, 2) for o in (1, 2) for (l, u) in
       [(0, 0), (2, 2), (3, 3), (0, 2)]]
_XQ = [dict(k=k, pmin=a, pmax=b, adaptive=ad) for k in (1, 2) for (a, b) in
       [(0, 0), (1, 0), (0, 1), (2, 2), (1, 2)] for ad in (False,)] + [dict(k=1, pmin=2, pmax=1, adaptive=True)]
_XT = [dict(k=k, pmin=a, pmax=b, adaptive=ad) for k in (1, 2) for a in range(4) for b in range(4)
       for ad in (False, True)]
_BQ = [dict(k=k, n=4, pattern=p) for k in (1, 2) for p in
       [(0, 0, 0, 0), (0, 1, 0, 0), (1, 0, 0, 0), (0, 0, 0, 1), (0, 1, 1, 0)]]
_BT = [dict(k=k, n=5, pattern=tuple((m >> i) & 1 for i in range(5))) for k in (1, 2) for m in range(32)
       if bin(m).count("1") <= 3]
_SQ = [dict(k=k, pattern=p) for k in (1, 2) for p in [(0, 0), (1, 0), (0, 1), (0, 1, 0)]]
_MQ = [dict(k=k, seq=s) for k in (1, 2) for s in [((2, 2),), ((1, 1), (0, 0)), ((3, 0), (2, 1), (0, 3))]]

HARNESSES = [
    HarnessDef("evaluate", h_evaluate, _EQ, _ET, max_paths=60, timeout_s=30,
               encodes=[InterpolatableFunction.evaluate, InterpolatableFunction._evaluateOutOfBounds,
                        InterpolatableFunction._findInterpolatablePoints,
                        InterpolatableFunction._evaluateDirectly,
                        InterpolatableFunction.setExtrapolationType, InterpolatableFunction._interpolate],
               random_validation=2),
    HarnessDef("derivative", h_derivative, _DQ, _DT, max_paths=200, timeout_s=30,
               encodes=[InterpolatableFunction.derivative], random_validation=2),
    HarnessDef("extend", h_extend, _XQ, _XT, max_paths=60, timeout_s=30,
               encodes=[InterpolatableFunction.extendInterpolationTable,
                        InterpolatableFunction.newInterpolationTableFromValues], random_validation=2),
    HarnessDef("table-rebuild", h_rebuild, [dict(k=1), dict(k=2)], max_paths=40, timeout_s=30,
               encodes=[InterpolatableFunction._interpolate, InterpolatableFunction.derivative], random_validation=1),
    HarnessDef("drop-bad-points", h_badpoints, _BQ, _BT, max_paths=20, timeout_s=30,
               encodes=[InterpolatableFunction._dropBadPoints, InterpolatableFunction._interpolate],
               random_validation=1),
    HarnessDef("schedule", h_schedule, _SQ, _SQ, max_paths=40, timeout_s=30,
               encodes=[InterpolatableFunction.scheduleForInterpolation], random_validation=1),
    HarnessDef("adaptive-update", h_adaptive, [dict(k=1), dict(k=2)], max_paths=60, timeout_s=30,
               encodes=[InterpolatableFunction._adaptiveInterpolationUpdate,
                        InterpolatableFunction.scheduleForInterpolation], random_validation=1),
    HarnessDef("update-in-mid-call", h_midcall, [dict(k=1, upper=u) for u in (1, 2, 3)] + [dict(k=2, upper=2)],
               [dict(k=k, upper=u) for k in (1, 2) for u in (0, 1, 2, 3)], max_paths=200, timeout_s=30,
               encodes=[InterpolatableFunction._evaluateOutOfBounds, InterpolatableFunction.evaluate,
                        InterpolatableFunction._adaptiveInterpolationUpdate], random_validation=1),
    HarnessDef("mode-changes", h_modechange, _MQ, _MQ, max_paths=40, timeout_s=30,
               encodes=[InterpolatableFunction.setExtrapolationType], random_validation=1),
    HarnessDef("file-round-trip", h_file, [dict(k=1), dict(k=2)], [dict(k=k) for k in (1, 2, 3, 4)],
               max_paths=2, timeout_s=30, encodes=[InterpolatableFunction.writeInterpolationTable,
                                                   InterpolatableFunction.readInterpolationTable],
               random_validation=1),
]

MANIFEST = {
    "text": "From an arbitrary valid table (3-4 symbolic increasing abscissae, symbolic values, "
            "return dimension 1-3) the real class is executed on symbolic inputs of every listed "
            "shape under all 16 mode pairs: every mask combination (below/inside/above per "
            "element) is a path and z3 decides that each entry is the spline value, the direct "
            "value, the boundary value or the extrapolated spline as its side prescribes, that "
            "ValueError is raised exactly when an ERROR side is hit, that derivatives follow "
            "the same rule, that extension / adaptive update / bad-point filtering / mode "
            "changes preserve 'abscissae strictly increasing, range = table ends, bad rows "
            "dropped individually', and that a file round trip reproduces the function."
            " An adaptive update triggered in the middle of a call (points on both sides of the table) leaves no element unwritten and ERROR still raises.",
    "note": "spline accuracy is numerical and outside; CubicSpline is a model with scipy's "
            "input checks; abscissae are reals (linspace rounding outside).",
}
