"""C05 -- the LTE wall velocity conserves entropy flux across the wall.

`Hydrodynamics.matchDeflagOrHyb(vw, vp=None)` (v+ from entropy conservation inside the 2x2
matching) runs with the hybr solver a contract stub (exact zero of the real residual closure):
z3 decides T+ gamma+ = T- gamma- together with energy / momentum flux conservation for the
returned tuple.  `findvwLTE` and `WallGoManager.wallSpeedLTE` run with the matching and the
shock solver replaced by arbitrary functions of the wall velocity: z3 decides the sentinel
logic -- 1 only if no shock front exists in [cs+(Tn), vJ] or the mismatch at the top of the
window is positive or the last matching did not converge, 0 only if the mismatch at the
smallest velocity is negative, otherwise a zero of the mismatch inside (vMin, vmax) -- and
that the convergence flag consulted is the one written during this call.
"""
import types

import numpy as np
import z3

import WallGo.hydrodynamics as HY
import WallGo.manager as MG
from WallGo.exceptions import WallGoError

from symx import core, npx
from symx.core import AND, OR, NOT, Cond, Sym, eq, ge, gt, le, lt, ne
from symx.harness import HarnessDef, bare
from props.hydrokit import ScipyStubs, tolerance_claims
from props.c02 import make_hydro, arctan_axioms, flux_claims, gsq

EXPLANATION = __doc__
BOUNDS = {"paths": "<= 400", "EOS": "arbitrary p, w>0, 0<cs^2<1"}
OUTSIDE = ["'the mismatch keeps one sign over the whole window' for the sentinels (needs "
           "monotonicity of a numerically defined function): only the end-point conditions "
           "the code actually tests are decided", "convergence of hybr/brentq"]
ASSUMPTIONS = ["hybr contract: accepted result is an exact zero of the residual"]


def h_lte_matching(h):
    hy, th, st = make_hydro(h)
    vw = h.real("vw", 0.001, 0.999, default=0.45)
    vp, vm, Tp, Tm = hy.matchDeflagOrHyb(vw)
    if not hy.success:
        return
    vp, vm, Tp, Tm = (core.unbox(np.asarray(x)) for x in (vp, vm, Tp, Tm))
    for n, v in (("vp", vp), ("vm", vm), ("Tp", Tp), ("Tm", Tm)):
        h.observe(n, v)
    h.assume(AND(gt(vp, 0), lt(vp, 1)), "0 < v+ < 1 (admissibility is C06's subject)")
    # entropy flux: s = w/T, s+ gamma+ v+ = s- gamma- v-; with energy-flux conservation this is
    # T+ gamma+ = T- gamma-   <=>   T+^2 (1 - v-^2) = T-^2 (1 - v+^2)
    h.prove_eq("T+ gamma+ = T- gamma- (squared form)", Tp * Tp * (1 - vm * vm), Tm * Tm * (1 - vp * vp),
               conc_rtol=1e-6)
    # energy/momentum flux: C02 proves them for ANY v+ whose square enters the residual; here
    # it remains to show that the returned v+ is the one the residual was solved with
    h.prove_eq("returned v+^2 is the entropy-conserving v+^2 used inside the residual",
               vp * vp, (Tm * Tm - Tp * Tp * (1 - vm * vm)) / (Tm * Tm), conc_rtol=1e-7)
    # the returned velocities are the ones the junction relations were solved with
    h.assume(core.ne(th.eHighT(Tp), th.eLowT(Tm)), "e+ != e- at the returned temperatures (1e50 guard outside)")
    vpvm, vpovm = hy.vpvmAndvpovm(Tp, Tm)
    h.prove_eq("returned v+^2 = (v+v-)(v+/v-) of the junction relations at the returned temperatures",
               vp * vp, vpvm * vpovm, conc_rtol=1e-6)
    h.prove_eq("returned v-^2 = (v+v-)/(v+/v-) of the junction relations at the returned temperatures",
               vm * vm, vpvm / vpovm, conc_rtol=1e-6)
    cs2 = th.csqLowT(Tm)
    h.prove("v-^2 = min(vw^2, cs-^2)", OR(AND(eq(vm * vm, vw * vw), le(vw * vw, cs2)),
                                           AND(eq(vm * vm, cs2), le(cs2, vw * vw))))


def h_findvwlte(h, via_manager):
    hy, th, st = make_hydro(h, stubs=None)
    st.bad_bracket = "raise"
    hy.vJ = h.real("vJ", 0.05, 0.99, default=0.7)
    hy.vMin = h.real("vMin", 1e-3, 0.9, default=0.01)
    h.assume(lt(hy.vMin, hy.vJ - 1e-3))
    D = h.ufun("Dlte", lambda vw: 0.3 - vw)          # shock mismatch Tn(vw) - Tn
    S = h.ufun("Sfront", lambda vw: vw * 0.3 - 0.33)  # v+ vw - cs^2(T+)
    log = []
    hy.success = h.flag("stale_success_before_call")

    def match(vw, vp=None):
        ok = h.lazy_flag("matching_converged")
        hy.success = ok
        log.append(("match", vw, ok))
        vpv = h.fresh("lte_vp", 0, 1, default=0.3)
        Tpv = h.fresh("lte_Tp", 0, None, default=1.1)
        # tie the two closures of findvwLTE to the arbitrary functions D and S
        log[-1] += (vpv, Tpv)
        return vpv, vpv, Tpv, Tpv
    hy.matchDeflagOrHyb = match

    # shock(vw) = vp*vw - csq(Tp)  and  shockTnuclDiff(vw) = solveHydroShock(vw,vp,Tp) - Tn :
    # make both arbitrary functions of vw by constraining the fresh values
    def solveHydroShock(vw, vp, Tp):
        return D(vw) + hy.Tnucl
    hy.solveHydroShock = solveHydroShock
    real_csq = th.csqHighT

    def csqHigh(T):
        # for temperatures produced by `match`, make vp*vw - csq = S(vw)
        for rec in log:
            if rec[0] == "match" and len(rec) == 5 and (rec[4] is T):
                return rec[3] * rec[1] - S(rec[1])
        return real_csq(T)
    th.csqHighT = csqHigh
    if via_manager:
        m = bare(MG.WallGoManager)
        m.hydrodynamics = hy
        out = m.wallSpeedLTE()
    else:
        out = hy.findvwLTE()
    tolerance_claims(h, st, hy, "findvwLTE: ")
    cs_hi = real_csq(hy.Tnucl)
    matches = [r for r in log if r[0] == "match"]
    rs = [c for c in st.calls if c[0] == "root_scalar"]
    is_one = (not isinstance(out, Sym)) and out == 1
    is_zero = (not isinstance(out, Sym)) and out == 0
    vtop = hy.vJ - 1e-10
    if is_one:
        last_ok = matches[-1][2] if matches else True
        no_front = AND(gt(S(vtop), 0), gt(S(_sqrt(h, cs_hi)) * S(hy.vJ), 0))
        conds = [no_front]
        # top of the (possibly truncated) window: mismatch positive
        tops = [r[1] for r in matches]
        conds.append(OR(*[gt(D(t), 0) for t in tops])) if tops else None
        conds.append(Cond(z=z3.Not(last_ok.term())) if hasattr(last_ok, "term") else Cond(b=not last_ok))
        h.prove("runaway sentinel only if: no front in [cs+(Tn), vJ], or mismatch > 0 at the top of "
                "the window, or the last matching of THIS call did not converge", OR(*conds))
        return
    if is_zero:
        h.prove("static sentinel only if the mismatch is already negative at vMin", lt(D(hy.vMin), 0))
        return
    h.prove("otherwise: a zero of the mismatch", eq(D(out), 0))
    top = _top(h, rs, hy, vtop)
    h.prove("between vMin and the top of the (possibly truncated) window",
            OR(AND(ge(out, hy.vMin), le(out, top)), AND(le(out, hy.vMin), ge(out, top))))
    h.prove("bracket ends have the right signs", AND(le(D(_top(h, rs, hy, vtop)), 0), ge(D(hy.vMin), 0)))


def _sqrt(h, x):
    return core.sym_sqrt(x) if isinstance(x, Sym) else float(x) ** 0.5


def _top(h, rs, hy, vtop):
    """upper end handed to the final root search"""
    last = rs[-1]
    return last[2][1]


AX = [arctan_axioms]

def h_lte_concrete(h, ab, asym, musq, Tn, vw):
    """concrete twin of `lte-matching` (the fully symbolic obligations become `unknown` as soon as the
    code deviates): a two-step equation of state with temperature-dependent sound speeds, the real
    Hydrodynamics object and the real scipy solvers; matchDeflagOrHyb(vw) with v+ from entropy
    conservation must return a tuple with T+ gamma+ = T- gamma-, equal energy and momentum fluxes,
    and v-^2 = min(vw^2, cs-^2(T-)) -- for a deflagration and for a hybrid."""
    import WallGo

    class TwoStep(WallGo.Thermodynamics):
        def __init__(self):
            self.aL, self.aH, self.mu2, self.Tnucl = ab, asym, musq, Tn
            lim = lambda: types.SimpleNamespace(minPossibleTemperature=[0.01, False], maxPossibleTemperature=[5.0, False])  # noqa: E731
            self.freeEnergyHigh, self.freeEnergyLow = lim(), lim()
            self.TMinLowT = self.TMinHighT = 0.01
            self.TMaxLowT = self.TMaxHighT = 5.0

        def pHighT(self, T): return T**4 + (self.aL - self.aH + self.aH * T**2 - self.mu2)**2 - self.mu2**2
        def dpHighT(self, T): return 4 * T**3 + 4 * self.aH * T * (self.aL - self.aH + self.aH * T**2 - self.mu2)
        def ddpHighT(self, T): return 12 * T**2 + 8 * self.aH**2 * T**2 + 4 * self.aH * (self.aL - self.aH + self.aH * T**2 - self.mu2)
        def pLowT(self, T): return T**4 + (self.aL * T**2 - self.mu2)**2 - self.mu2**2
        def dpLowT(self, T): return 4 * T**3 + 4 * self.aL * T * (self.aL * T**2 - self.mu2)
        def ddpLowT(self, T): return 12 * T**2 + 8 * self.aL**2 * T**2 + 4 * self.aL * (self.aL * T**2 - self.mu2)
    th = TwoStep()
    hy = HY.Hydrodynamics(th, 10, 0.1, 1e-10, 1e-10)
    h.prove("the wall velocity of this case is below the Jouguet velocity", Cond(b=bool(vw < hy.vJ)))
    vp, vm, Tp, Tm = (float(x) for x in hy.matchDeflagOrHyb(vw))
    g2 = lambda v: 1.0 / (1.0 - v * v)  # noqa: E731
    cs2 = float(th.csqLowT(Tm))
    wp, wm = float(th.wHighT(Tp)), float(th.wLowT(Tm))
    h.prove("v-^2 = min(vw^2, cs-^2(T-))", Cond(b=abs(vm * vm - min(vw * vw, cs2)) <= 1e-9))
    h.prove("entropy: T+ gamma+ = T- gamma-", Cond(b=abs(Tp * g2(vp) ** 0.5 / (Tm * g2(vm) ** 0.5) - 1) <= 1e-7))
    h.prove("energy flux equal on both sides", Cond(b=abs(wp * g2(vp) * vp / (wm * g2(vm) * vm) - 1) <= 1e-7))
    h.prove("momentum flux equal on both sides", Cond(
        b=abs((wp * g2(vp) * vp * vp + float(th.pHighT(Tp))) / (wm * g2(vm) * vm * vm + float(th.pLowT(Tm))) - 1) <= 1e-7))
    h.prove("hybrid exactly when vw exceeds the sound speed behind the wall", Cond(b=(vm < vw - 1e-12) == (vw * vw > cs2 + 1e-12)))


def h_manager_history(h):
    """WallGoManager.wallSpeedLTE answers for the hydrodynamics of the CURRENT set-up: after the
    manager is set up again (new Tn / parameters -> new thermodynamics and hydrodynamics objects,
    through the real _initHydrodynamics) the LTE velocity is that of the new point, whatever was
    asked before."""
    import types
    from WallGo.config import Config
    built = []

    class HydroSpy:
        def __init__(self, thermodynamics, tmax, tmin, rtol, atol):
            self.thermodynamics = thermodynamics
            self.value = h.fresh("vwLTE", 0, 1, strict=False, default=0.3 + 0.2 * len(built))
            self.asked = 0
            built.append(self)

        def findvwLTE(self):
            self.asked += 1
            return self.value
    h.patch_always(MG, Hydrodynamics=HydroSpy)
    m = bare(MG.WallGoManager)
    m.config = Config()
    for k in range(3):
        Tn = h.real(f"Tn{k}", 0.5, 500, default=100.0 + k)
        m.phasesAtTn = types.SimpleNamespace(temperature=Tn)
        m._initHydrodynamics(types.SimpleNamespace(Tnucl=Tn, tag=k))
        for rep in range(2 if k == 1 else 1):
            out = m.wallSpeedLTE()
            h.prove(f"set-up {k}, call {rep}: one hydrodynamics object per set-up, the manager holds the newest",
                    Cond(b=len(built) == k + 1 and m.hydrodynamics is built[-1]))
            h.prove_eq(f"set-up {k}, call {rep}: wallSpeedLTE = findvwLTE of the current hydrodynamics", out, built[-1].value)


from props.c15 import h_maxal as _h_maxal, AX as _AX15
import WallGo.hydrodynamicsTemplateModel as _HT

HARNESSES = [
    # the bound that makes the template LTE solver return its runaway sentinel
    HarnessDef("template-maxAl", _h_maxal, [dict(part="residual"), dict(part="sentinels")], [dict(part="residual")], max_paths=200, timeout_s=60, timeout_s_thorough=60,
               axioms=_AX15, encodes=[_HT.HydrodynamicsTemplateModel.maxAl, _HT.HydrodynamicsTemplateModel._eqWall],
               random_validation=2, concrete_alarms=False, feas_timeout_ms=300),
    HarnessDef("lte-matching", h_lte_matching, [dict()], max_paths=400, timeout_s=60, axioms=AX,
               encodes=[HY.Hydrodynamics.matchDeflagOrHyb, HY.Hydrodynamics.vpvmAndvpovm],
               random_validation=1, concrete_alarms=False, feas_timeout_ms=300),
    HarnessDef("findvwLTE-sentinels", h_findvwlte, [dict(via_manager=False), dict(via_manager=True)],
               max_paths=400, timeout_s=60, axioms=AX,
               encodes=[HY.Hydrodynamics.findvwLTE, MG.WallGoManager.wallSpeedLTE],
               random_validation=0, concrete_alarms=False),
    HarnessDef("lte-matching-concrete", h_lte_concrete,
               [dict(ab=0.4, asym=0.2, musq=0.8, Tn=0.9, vw=0.58), dict(ab=0.4, asym=0.2, musq=0.8, Tn=0.9, vw=0.5),
                dict(ab=0.2, asym=0.1, musq=0.4, Tn=0.9, vw=0.6)],
               [dict(ab=a, asym=b, musq=m, Tn=T, vw=v) for (a, b, m, T) in ((0.4, 0.2, 0.8, 0.9), (0.2, 0.1, 0.4, 0.9), (0.4, 0.2, 0.8, 0.85))
                for v in (0.45, 0.5, 0.56, 0.6, 0.64)], max_paths=2, timeout_s=120,
               encodes=[HY.Hydrodynamics.matchDeflagOrHyb], random_validation=0),
    HarnessDef("manager-lte-history", h_manager_history, [dict()], max_paths=10, timeout_s=30,
               encodes=[MG.WallGoManager.wallSpeedLTE, MG.WallGoManager._initHydrodynamics], random_validation=1),
]

MANIFEST = {
    "text": "matchDeflagOrHyb(vw) with v+ from entropy conservation: for every EOS, vw, Tn and "
            "window, a vanishing residual implies T+ gamma+ = T- gamma- and energy/momentum flux "
            "conservation for the returned tuple on every path. findvwLTE / wallSpeedLTE with the "
            "matching and shock solver arbitrary functions of vw: the runaway sentinel is "
            "returned only when the code's own end-point tests say so (no front in [cs+(Tn),vJ], "
            "positive mismatch at the top, or an unconverged matching of this call), the static "
            "sentinel only with negative mismatch at vMin, otherwise a bracketed zero in (vMin,vJ)."
            " WallGoManager.wallSpeedLTE is the LTE velocity of the hydrodynamics of the current set-up across three set-ups of one manager."
            " Concrete twin: on a two-step equation of state (temperature-dependent sound speeds) the real matchDeflagOrHyb(vw) with the real scipy returns T+ gamma+ = T- gamma-, equal fluxes and v-^2 = min(vw^2, cs-^2(T-)) for deflagrations and hybrids.",
    "note": "The 'one sign over the whole window' part of the sentinel statement needs "
            "monotonicity and is not decided; iterations are contract stubs.",
}
