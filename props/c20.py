"""C20 -- thermal integrals, their shipped tables and the ideal-gas limit (formula layer + table scan).

Decided by the solver: `EffectivePotentialNoResum.potentialOneLoopThermal` runs with the
thermal integrals Jb, Jf uninterpreted functions carrying their known contract
(Jb(0) = -pi^4/45, Jf(0) = -7 pi^4/360): for symbolic masses, degrees of freedom and
temperature (scalar and array) the result is T^4/(2 pi^2) (sum_B n J_b(m^2/T^2) + sum_F n
J_f(m^2/T^2)) with the sum over the species axis and each temperature paired with its own row,
reduces to the Stefan-Boltzmann value for massless particles, and the ABS_ARGUMENT option only
replaces m^2 by |m^2|.

Integrand layer: `JbIntegral/JfIntegral._functionImplementation` run with the quadrature replaced
by a recording stub (returns an arbitrary number): for symbolic x on either side of zero the solver
decides which pieces are integrated over which limits, how they are assembled into (Re, Im), and
that every integrand handed to the quadrature equals, at an arbitrary point y of its piece, the
defining integrand -/+ y^2 log(1 -/+ exp(-sqrt(y^2+x))) -- for y^2+x<0 its principal real part
log|1 -/+ e^{-iw}| and imaginary part arg(1 -/+ e^{-iw}) written with sin w, cos w (the code uses
half-angle forms; the double-angle identities are the stated axioms, exp/log/sin/cos/tan/arctan are
uninterpreted with |arctan| < pi/2).

Bounded ground scan, encoded in SMT but without symbolic inputs (stated as such): every row of
the two shipped 10000-row tables, as loaded by the real `readInterpolationTable`, must agree
with the cubic interpolation of its four neighbours within a region-dependent tolerance, have
vanishing imaginary part for non-negative argument, increase monotonically for x >= 1/2 and
decay at large argument.  This catches a localised corruption of a table; it does not show
that the table equals the integral.

NOT decided (not applicable to this technique): that scipy.integrate.quad of the piecewise
integrands equals the defining integrals, and that the tables reproduce them to a given accuracy.
"""
import math
import types
from fractions import Fraction as Fr

import numpy as np
import z3

import WallGo.PotentialTools.effectivePotentialNoResum as NR
import WallGo.PotentialTools.integrals as IG
from WallGo.PotentialTools import defaultIntegrals
from WallGo.PotentialTools.effectivePotentialNoResum import EffectivePotentialNoResum, EImaginaryOption

from symx import core, npx
from symx.core import AND, Cond, Sym, close, eq
from symx.harness import HarnessDef, bare

EXPLANATION = __doc__
BOUNDS = {"integrands": "x in [0, 2000] and (-2000, 0), y in (0, 60)/(0, 80)/(0, 45), scalar argument; isolated "
                        "points with w/2 a multiple of pi/2 excluded",
          "thermal sum": "1-2 boson and 1-2 fermion species, scalar T and T of shape (2,), all symbolic",
          "tables": "all 10000 rows of both shipped tables, both columns (ground scan in 500-row chunks)"}
OUTSIDE = ["convergence/accuracy of scipy.integrate.quad on the integrands (the quadrature is a stub returning an "
           "arbitrary number; only WHAT is integrated over WHICH limits is decided)", "accuracy of the tables with respect to the integrals",
           "Coleman-Weinberg term with complex logarithm (complex arithmetic is not modelled)",
           "Boltzmann suppression for heavy particles and continuity in the masses: properties of Jb/Jf themselves"]
ASSUMPTIONS = ["exp, log, sin, cos, tan, arctan uninterpreted; double-angle identities at w/2; |arctan| < pi/2; "
               "SMALL_NUMBER = 1e-100 read as 0 (ideal-constant lifting)",
               "Jb, Jf uninterpreted with Jb(0) = -pi^4/45, Jf(0) = -7 pi^4/360"]

JB0 = -math.pi ** 4 / 45
JF0 = -7 * math.pi ** 4 / 360


def make_potential(h, option):
    h.patch(NR, float=npx.symfloat, np=npx.NP())
    Jb = h.ufun("Jb", lambda x: JB0 * math.exp(-abs(x) ** 0.5) if x != 0 else JB0)
    Jf = h.ufun("Jf", lambda x: JF0 * math.exp(-abs(x) ** 0.5) if x != 0 else JF0)

    def wrap(J):
        def f(x):
            x = np.asarray(x)
            out = np.empty(x.shape + (2,), dtype=object if h.symbolic else float)
            for idx in np.ndindex(*x.shape):
                out[idx + (0,)] = J(x[idx])
                out[idx + (1,)] = 0.0
            return out
        return f
    class _Pot(EffectivePotentialNoResum):
        fieldCount = 1

        def bosonInformation(self, fields, temperature):
            raise NotImplementedError

        def fermionInformation(self, fields, temperature):
            raise NotImplementedError

        def evaluate(self, fields, temperature):
            raise NotImplementedError
    pot = bare(_Pot)
    pot.integrals = types.SimpleNamespace(Jb=wrap(Jb), Jf=wrap(Jf))
    pot.imaginaryOption = option
    return pot, Jb, Jf


def h_thermal(h, nb, nfm, tshape, option):
    opt = getattr(EImaginaryOption, option)
    pot, Jb, Jf = make_potential(h, opt)
    small = EffectivePotentialNoResum.SMALL_NUMBER
    if tshape == 0:
        Ts = [h.real("T", 0.01, 1e3, default=1.3)]
        T = Ts[0]
        mB = h.reals("msqB", (nb,), 0 if option != "ABS_ARGUMENT" else -50, 50, strict=False)
        mF = h.reals("msqF", (nfm,), 0 if option != "ABS_ARGUMENT" else -50, 50, strict=False)
        mBs, mFs = [mB], [mF]
    else:
        Ts = [h.real(f"T{i}", 0.01, 1e3, default=1.0 + i) for i in range(tshape)]
        T = np.array(Ts, dtype=object if h.symbolic else float)
        mBa = h.reals("msqB", (tshape, nb), 0 if option != "ABS_ARGUMENT" else -50, 50, strict=False)
        mFa = h.reals("msqF", (tshape, nfm), 0 if option != "ABS_ARGUMENT" else -50, 50, strict=False)
        mB, mF = mBa, mFa
        mBs, mFs = list(mBa), list(mFa)
    nB = np.array([1.0, 3.0][:nb])
    nF = np.array([12.0, 4.0][:nfm])
    V = pot.potentialOneLoopThermal((mB, nB, 1.5, 1.0), (mF, nF, 1.5, 1.0), T)
    V = np.asarray(V)
    h.prove("result shape = temperature shape", Cond(b=V.shape == (() if tshape == 0 else (tshape,))))
    ab = (lambda v: (abs(v) if not isinstance(v, Sym) else core.sabs(v))) if option == "ABS_ARGUMENT" else (lambda v: v)
    for i, Ti in enumerate(Ts):
        want = 0.0
        for k in range(nb):
            want = want + float(nB[k]) * Jb(ab(mBs[i][k]) / (Ti * Ti + small))
        for k in range(nfm):
            want = want + float(nF[k]) * Jf(ab(mFs[i][k]) / (Ti * Ti + small))
        want = want * Ti ** 4 / (2 * math.pi * math.pi)
        got = V[i] if tshape else V[()]
        h.prove_eq(f"V_T = T^4/(2 pi^2) (sum n_B Jb + sum n_F Jf), temperature {i} paired with its own masses",
                   got, want, conc_rtol=1e-9)
        h.observe("VT", got)


def h_massless(h):
    pot, Jb, Jf = make_potential(h, EImaginaryOption.ERROR)
    T = h.real("T", 0.01, 1e3, default=1.3)
    nb_, nf_ = h.real("nB", 0, 200, default=28.0), h.real("nF", 0, 200, default=90.0)
    if h.symbolic:
        h.assume(AND(eq(Jb(0.0), JB0), eq(Jf(0.0), JF0)), "known values of the thermal integrals at zero argument")
    V = pot.potentialOneLoopThermal((np.zeros(1), np.array([nb_], dtype=object if h.symbolic else float), 1.5, 1.0),
                                    (np.zeros(1), np.array([nf_], dtype=object if h.symbolic else float), 1.5, 1.0), T)
    sb = -(math.pi ** 2 / 90) * (nb_ + 7.0 / 8.0 * nf_) * T ** 4
    h.prove_close("massless limit = Stefan-Boltzmann free energy", core.unbox(np.asarray(V)), sb, rtol=1e-9,
                  atol=0.0, scale=(nb_ + nf_ + 1e-30) * T ** 4 if h.symbolic else float((nb_ + nf_) * T ** 4 + 1e-30))


# ---- which integrals a default-constructed potential uses ---------------------------------

def h_direct(h, via):
    """A potential constructed with its defaults ("integrals done without interpolation") and a bare
    Integrals() evaluate Jb / Jf directly on EVERY call, whatever was evaluated before: no table is
    built behind the user's back after some number of evaluations, so identical input gives identical
    output at any point of the object's history."""
    if via == "potential":
        class _P(EffectivePotentialNoResum):
            fieldCount = 1

            def bosonInformation(self, fields, temperature):
                raise NotImplementedError

            def fermionInformation(self, fields, temperature):
                raise NotImplementedError

            def evaluate(self, fields, temperature):
                raise NotImplementedError
        ints = _P().integrals
    else:
        ints = IG.Integrals()
    n_eval = 1300      # more than twice the adaptive-update threshold of InterpolatableFunction
    for name in ("Jb", "Jf"):
        J = getattr(ints, name)
        seen = []

        def impl(x, seen=seen):
            x = np.asarray(x, dtype=float)
            seen.append(x.size)
            # a smooth stand-in for the quadrature (only the call pattern matters here)
            return np.stack([np.exp(-np.abs(x) ** 0.5), 0.0 * x], axis=-1)
        J._functionImplementation = impl
        for k in range(n_eval):
            J(1.0 + 9999.0 * k / (n_eval - 1))
        probe = J(2.5)
        h.prove(f"{name}: never interpolating (no table appeared after {n_eval} evaluations)",
                Cond(b=not J.hasInterpolation()))
        h.prove(f"{name}: every evaluation reached the integral itself", Cond(b=len(seen) == n_eval + 1))
        h.prove(f"{name}: the value is the integral's, not a spline's",
                Cond(b=bool(abs(np.ravel(probe)[0] - math.exp(-2.5 ** 0.5)) < 1e-12)))


def h_default_tables(h):
    """A potential constructed with useDefaultInterpolation=True uses the shipped tables with
    adaptive updates off and CONSTANT continuation on both sides: beyond the table the integrals keep
    their edge values (heavy species stay Boltzmann-suppressed: |J| never grows again above x = 1000)."""
    from WallGo.interpolatableFunction import EExtrapolationType

    class _P(EffectivePotentialNoResum):
        fieldCount = 1

        def bosonInformation(self, fields, temperature):
            raise NotImplementedError

        def fermionInformation(self, fields, temperature):
            raise NotImplementedError

        def evaluate(self, fields, temperature):
            raise NotImplementedError
    pot = _P(useDefaultInterpolation=True)
    h.prove("the shipped default integrals are used", Cond(b=pot.integrals is defaultIntegrals))
    for name in ("Jb", "Jf"):
        J = getattr(pot.integrals, name)
        h.prove(f"{name}: table present, no adaptive rebuilding", Cond(
            b=J.hasInterpolation() and not J._bUseAdaptiveInterpolation))
        h.prove(f"{name}: constant continuation below and above the table", Cond(
            b=J.extrapolationTypeLower == EExtrapolationType.CONSTANT
            and J.extrapolationTypeUpper == EExtrapolationType.CONSTANT))
        lo, hi = J.interpolationRangeMin(), J.interpolationRangeMax()
        edge_hi = np.ravel(J(hi))[0]
        edge_lo = np.ravel(J(lo))[0]
        for x in (hi * 1.001, 2e3, 1e4, 1e6, 1e8):
            h.prove(f"{name}({x:g}) above the table = edge value (no growth for heavy species)",
                    Cond(b=bool(np.ravel(J(x))[0] == edge_hi) and abs(edge_hi) < 1e-10))
        for x in (lo - 0.5, lo * 3.0, -1e4):
            h.prove(f"{name}({x:g}) below the table = edge value", Cond(b=bool(np.ravel(J(x))[0] == edge_lo)))
        xs = np.array([[lo - 1.0, 0.3], [hi + 5.0, 1e5]])
        out = np.asarray(J(xs))
        h.prove(f"{name}: array input, mixed in/out of range, per element", Cond(
            b=out.shape[:2] == (2, 2) and bool(out[0, 0].ravel()[0] == edge_lo) and bool(out[1, 0].ravel()[0] == edge_hi)
            and bool(out[1, 1].ravel()[0] == edge_hi) and bool(out[0, 1].ravel()[0] == np.ravel(J(0.3))[0])))


# ---- integrands and the piecewise assembly of Jb / Jf ------------------------------------

def trig_axioms(e):
    """range of the principal arctan (the only fact about arctan the claims need)"""
    out = []
    half = z3.RealVal(core.lift_float(math.pi / 2))
    for (_a,), app in e.apps.get("arctan", []):
        out += [app < half, app > -half]
    return out


def h_integrand(h, kind, region):
    """JbIntegral / JfIntegral._functionImplementation with the quadrature replaced by a stub that
    records (integrand, a, b) and returns an arbitrary number: the pieces integrated, their limits,
    the assembly into (Re, Im), and every integrand at an arbitrary point of its piece against the
    defining integrand  -/+ y^2 log(1 -/+ exp(-sqrt(y^2 + x)))  with sqrt(y^2+x) = i w for y^2+x < 0:
    log(1 -/+ e^{-iw}) = log|1 -/+ e^{-iw}| + i arg(1 -/+ e^{-iw})  (principal values)."""
    h.patch(IG, float=npx.symfloat, np=npx.NP(), complex=core.symcomplex)
    cls = IG.JbIntegral if kind == "b" else IG.JfIntegral
    sg = -1.0 if kind == "b" else 1.0          # 1 + sg e^{-z}
    calls = []

    def integ(func, a, b):
        v = h.fresh("quad", -100, 100, default=0.37 + 0.11 * len(calls))
        calls.append((func, a, b, v))
        return v
    h.patch_always(IG, _integrator=integ)
    obj = bare(cls)
    if region == "pos":
        x = h.real("x", 0, 2000, strict=False, default=3.0)
    else:
        x = h.real("x", -2000, 0, default=-60.0)
    out = np.asarray(obj._functionImplementation(x)).reshape(-1)
    h.prove("result has a real and an imaginary component", Cond(b=out.shape == (2,)))
    sqrt = core.sym_sqrt if h.symbolic else math.sqrt
    fn = (lambda n, a: core.sym_uf(n, a)) if h.symbolic else (lambda n, a: getattr(math, {"arctan": "atan"}.get(n, n))(a))

    def defining_pos(y):
        return -sg * y * y * fn("log", 1.0 + sg * fn("exp", -sqrt(y * y + x)))
    if region == "pos":
        h.prove("x >= 0: one piece", Cond(b=len(calls) == 1))
        f0, a0, b0, v0 = calls[0]
        h.prove("x >= 0: integrated over [0, inf)", Cond(b=(not isinstance(a0, Sym)) and a0 == 0.0 and b0 == np.inf))
        h.prove_eq("x >= 0: Re J = the integral", out[0], v0)
        h.prove_eq("x >= 0: Im J = 0", out[1], 0.0)
        y = h.real("y", 0, 60, default=1.2)
        h.prove_eq("x >= 0: integrand is the defining one", f0(y), defining_pos(y), conc_rtol=1e-12)
        return
    h.prove("x < 0: three pieces", Cond(b=len(calls) == 3))
    (f0, a0, b0, v0), (f1, a1, b1, v1), (f2, a2, b2, v2) = calls
    edge = sqrt(-x)
    h.prove("x < 0: limits 0..sqrt|x| (oscillating part), sqrt|x|..inf (decaying part), 0..sqrt|x| (imaginary part)",
            AND(eq(a0, 0.0), eq(b0, edge), eq(a1, edge), Cond(b=b1 == np.inf), eq(a2, 0.0), eq(b2, edge)))
    h.prove_eq("x < 0: Re J = sum of the two real pieces", out[0], v0 + v1)
    h.prove_eq("x < 0: Im J = the imaginary piece", out[1], v2)
    # decaying part
    yo = h.real("y_out", 0, 80, default=9.0)
    h.assume(core.gt(yo * yo, -x))
    h.prove_eq("x < 0, y^2 > |x|: integrand is the defining one", f1(yo), defining_pos(yo), conc_rtol=1e-12)
    # oscillating part: sqrt(y^2 + x) = i w
    yi = h.real("y_in", 0, 45, default=1.0)
    h.assume(core.lt(yi * yi, -x))
    w = sqrt(-yi * yi - x)
    c, s_ = fn("cos", w), fn("sin", w)
    if h.symbolic:
        hw = 0.5 * w
        sh, ch, th = fn("sin", hw), fn("cos", hw), fn("tan", hw)
        h.assume(AND(eq(s_, 2 * sh * ch), eq(c, 1 - 2 * sh * sh), eq(sh * sh + ch * ch, 1.0), eq(th * ch, sh)),
                 "double-angle identities sin w = 2 sin(w/2) cos(w/2), cos w = 1 - 2 sin^2(w/2), "
                 "sin^2 + cos^2 = 1, tan = sin / cos (facts about the real functions, instantiated at w/2)")
        h.assume(AND(core.ne(sh, 0.0), core.ne(ch, 0.0)),
                 "w/2 not a multiple of pi/2 (isolated points where the integrand has its integrable "
                 "logarithmic singularity / the phase jumps; the code regularises them with 1e-100)")
    re_mod = sqrt((1 + sg * c) * (1 + sg * c) + s_ * s_)          # |1 + sg e^{-iw}|
    # arg(1 + sg e^{-iw}) = arctan(-sg sin w / (1 + sg cos w))  (real part >= 0: principal branch);
    # arctan is odd and sg^2 = 1:  -sg arg = arctan(sin w / (1 + sg cos w))
    marg = fn("arctan", s_ / (1 + sg * c))
    h.prove_eq("x < 0, y^2 < |x|: real integrand = -/+ y^2 log|1 -/+ e^{-iw}|", f0(yi),
               -sg * yi * yi * fn("log", re_mod), conc_rtol=1e-9)
    h.prove_eq("x < 0, y^2 < |x|: imaginary integrand = -/+ y^2 arg(1 -/+ e^{-iw})", f2(yi),
               yi * yi * marg, conc_rtol=1e-9)


# ---- shipped tables -------------------------------------------------------------------

def _tol(name, x, comp):
    if x >= 0.5:
        return 2e-4
    if name == "Jf" and -14.5 <= x <= -8.5:
        return 3e-2
    if -0.6 <= x <= 0.6:
        return 8e-3
    return 2e-3


def h_tables(h, name, comp, chunk):
    J = getattr(defaultIntegrals, name)
    x = np.asarray(J._interpolationPoints, dtype=float)
    y = np.asarray(J._interpolationValues, dtype=float)[:, comp]
    n = len(x)
    lo, hi = chunk * 500, min((chunk + 1) * 500, n)
    if chunk == 0:
        h.prove("table covers [-20, 1000] with 10000 uniformly spaced rows", Cond(
            b=n == 10000 and abs(x[0] + 20) < 1e-9 and abs(x[-1] - 1000) < 1e-9
            and float(np.max(np.abs(np.diff(x) - (x[-1] - x[0]) / (n - 1)))) < 1e-9))
        h.prove("decay at large argument", Cond(b=bool(abs(y[-1]) < 1e-10)))
    terms = []
    bad = []
    for i in range(max(lo, 2), min(hi, n - 2)):
        r = Fr(y[i]) - (-Fr(y[i - 2]) + 4 * Fr(y[i - 1]) + 4 * Fr(y[i + 1]) - Fr(y[i + 2])) / 6
        ok = abs(r) <= Fr(_tol(name, x[i], comp))
        terms.append(z3.RealVal(abs(r)) <= z3.RealVal(Fr(_tol(name, x[i], comp))))
        if comp == 1 and x[i] >= 0:
            terms.append(z3.RealVal(Fr(y[i])) == 0)
        if comp == 0 and x[i] >= 0.5 and i + 1 < n:
            terms.append(z3.RealVal(Fr(y[i + 1])) >= z3.RealVal(Fr(y[i])))
        if not ok:
            bad.append(i)
    if h.mode == "sym":
        h.prove(f"{name}[{comp}] rows {lo}..{hi - 1}: locally smooth, real for x>=0, monotone for x>=1/2",
                Cond(z=z3.And(terms) if terms else z3.BoolVal(True)))
    else:
        okall = all(z3.is_true(z3.simplify(t)) for t in terms)
        h.prove(f"{name}[{comp}] rows {lo}..{hi - 1}: locally smooth, real for x>=0, monotone for x>=1/2", Cond(b=okall))


_TQ = [dict(nb=1, nfm=1, tshape=0, option="ERROR"), dict(nb=2, nfm=2, tshape=2, option="ERROR"),
       dict(nb=2, nfm=1, tshape=2, option="ABS_ARGUMENT"), dict(nb=1, nfm=2, tshape=0, option="PRINCIPAL_PART")]
_TT = [dict(nb=nb, nfm=nf, tshape=t, option=o) for nb in (1, 2) for nf in (1, 2) for t in (0, 2)
       for o in ("ERROR", "ABS_ARGUMENT", "PRINCIPAL_PART", "ABS_RESULT")]
_TAB = [dict(name=nm, comp=c, chunk=k) for nm in ("Jb", "Jf") for c in (0, 1) for k in range(20)]

HARNESSES = [
    HarnessDef("thermal-sum", h_thermal, _TQ, _TT, max_paths=60, timeout_s=60,
               encodes=[EffectivePotentialNoResum.potentialOneLoopThermal], random_validation=2),
    HarnessDef("massless-limit", h_massless, [dict()], max_paths=10, timeout_s=60,
               encodes=[EffectivePotentialNoResum.potentialOneLoopThermal], random_validation=2),
    HarnessDef("default-integrals-are-direct", h_direct, [dict(via="potential"), dict(via="Integrals")], max_paths=2,
               timeout_s=60, encodes=[IG.Integrals.__init__, EffectivePotentialNoResum.__init__], random_validation=1),
    HarnessDef("default-tables-configuration", h_default_tables, [dict()], max_paths=2, timeout_s=60,
               encodes=[EffectivePotentialNoResum.__init__], random_validation=1),
    HarnessDef("integrands", h_integrand, [dict(kind=k, region=r) for k in ("b", "f") for r in ("pos", "neg")],
               max_paths=20, timeout_s=60, axioms=[trig_axioms],
               encodes=[IG.JbIntegral._functionImplementation, IG.JbIntegral._integrandPositiveReal,
                        IG.JbIntegral._integrandNegativeReal, IG.JbIntegral._integrandNegativeImaginary,
                        IG.JfIntegral._functionImplementation, IG.JfIntegral._integrandPositiveReal,
                        IG.JfIntegral._integrandNegativeReal, IG.JfIntegral._integrandNegativeImaginary],
               random_validation=6),
    HarnessDef("shipped-tables", h_tables, _TAB, _TAB, max_paths=2, timeout_s=60,
               encodes=[], random_validation=1),
]

MANIFEST = {
    "text": "Integrand layer: with the quadrature stubbed, for symbolic x on both sides of zero z3 proves which "
            "pieces Jb/Jf integrate over which limits, their assembly into (Re, Im), and that each integrand "
            "equals the defining -/+ y^2 log(1 -/+ exp(-sqrt(y^2+x))) (principal real and imaginary parts for "
            "y^2+x<0) at an arbitrary point of its piece. Formula layer: for symbolic masses, degrees of freedom and temperatures (scalar and array) with "
            "Jb/Jf uninterpreted, potentialOneLoopThermal equals T^4/(2 pi^2)(sum n_B Jb(m^2/T^2) + sum n_F "
            "Jf(m^2/T^2)) summed over the species axis with each temperature paired with its own masses; massless "
            "particles give the Stefan-Boltzmann value; ABS_ARGUMENT only replaces m^2 by |m^2|. Tables: every row "
            "of both shipped tables passes a local-smoothness / reality / monotonicity / decay scan (ground SMT "
            "formulas over the real loaded data)."
            " Ground checks: a default-constructed potential / Integrals() evaluates the integrals directly on every one of 1300 calls; with useDefaultInterpolation=True the shipped tables are used with adaptive updates off and CONSTANT continuation on both sides.",
    "note": "Accuracy of quad() and that the tables reproduce the integrals is "
            "NOT decidable by this technique and is not claimed; the table scan only detects localised corruption.",
}
