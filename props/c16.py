"""C16 -- spectral polynomial calculus is exact on the polynomial space of the grid.

The real `Polynomial` methods run on coefficient arrays whose entries are *linear forms in
the symbolic monomial coefficients* of an arbitrary polynomial of the admissible degree
(times the boundary factor the direction imposes).  Grid nodes and the basis / derivative
matrices are the concrete doubles the real code computes, lifted exactly to rationals.  Each
claim "code output == independently computed p(x), p'(x_i), integral" is then a QF_LRA query
over all coefficient vectors in the box [-1,1]^(deg+1), tolerance 1e-8 absolute.
"""
import math
from fractions import Fraction

import numpy as np

import WallGo.polynomial as PM
from WallGo.grid import Grid
from WallGo.polynomial import Polynomial

from symx import core
from symx.core import AND, Cond, Sym, close
from symx.harness import HarnessDef

EXPLANATION = __doc__
TOL = 1e-8
BOUNDS = {
    "quick": "M in 2..8 (z), N in {3,5,7} (pz, pp), endpoints on/off, both bases; evaluation at "
             "all nodes and 4 off-node rationals; symbolic evaluation point for M<=4 (cardinal)",
    "thorough": "M up to 20, N up to 11",
    "coefficients": "monomial coefficients in [-1,1]; tolerance 1e-8 absolute",
    "multi-axis": "rank 2..4 arrays, shapes <= (2,.,.,.), mixed Array/polynomial axes",
}
OUTSIDE = ["float64 rounding of the operations applied to the coefficients themselves",
           "grid sizes beyond the enumerated ones",
           "the halved weight at the kept rho_par=-1 node is unobservable through "
           "Polynomial.integrate because the node carries the factor sqrt(1-x^2)=0"]
ASSUMPTIONS = ["nodes, basis matrices, derivative matrices are the doubles computed by the "
               "real code, entering the query as exact rationals",
               "scipy.special.eval_chebyt/u and numpy.linalg.inv on concrete arguments are run "
               "natively (their outputs are part of the checked identity, not trusted)"]


# ---- tiny exact polynomial arithmetic on coefficient lists (lowest degree first)

def pmul(a, b):
    r = [0.0] * (len(a) + len(b) - 1)
    for i, x in enumerate(a):
        for j, y in enumerate(b):
            r[i + j] = r[i + j] + x * y
    return r


def pval(a, x):
    r = 0.0
    for c in reversed(a):
        r = r * x + c
    return r


def pder(a):
    return [k * a[k] for k in range(1, len(a))] or [0.0]


def cheb_moment(k):
    """int_{-1}^{1} x^k / sqrt(1-x^2) dx"""
    if k % 2:
        return 0.0
    return math.pi * math.comb(k, k // 2) / 2**k


def _exact_node(x):
    return x


def boundary(direction, endpoints):
    if endpoints:
        return [1.0]
    return [1.0, 0.0, -1.0] if direction in ("z", "pz") else [1.0, -1.0]


def size(grid, direction, endpoints):
    return len(grid.getCompactCoordinates(endpoints, direction))


def generic_poly(h, grid, direction, endpoints, tag="a"):
    """(monomial coefficient list of p, nodal values of p on the grid)"""
    n = size(grid, direction, endpoints)
    a = [h.real(f"{tag}{k}", -1, 1, strict=False) for k in range(n)]  # degree n-1 free part
    p = pmul(boundary(direction, endpoints), a)
    nodes = grid.getCompactCoordinates(endpoints, direction)
    vals = np.array([pval(p, float(x)) for x in nodes], dtype=object if h.symbolic else float)
    return p, vals, nodes


OFFNODE = [-0.75, -0.2, 1 / 3.0, 0.9]


def h_roundtrip_eval(h, M, N, direction, endpoints):
    h.patch_numeric(PM)
    grid = Grid(M, N, 1.0, 1.0)
    p, vals, nodes = generic_poly(h, grid, direction, endpoints)
    poly = Polynomial(vals.copy(), grid, "Cardinal", direction, endpoints)
    # evaluation in the cardinal basis: nodes and off-node points
    pts = [float(x) for x in nodes] + OFFNODE
    for x in pts:
        got = poly.evaluate(np.array([x]))
        h.prove_close("eval-cardinal", got, pval(p, x), rtol=0, atol=TOL)
    for i, x in enumerate(nodes):
        h.prove_close("eval-cardinal-node-is-coefficient", poly.evaluate(np.array([float(x)])),
                      vals[i], rtol=0, atol=TOL)
    poly.changeBasis("Chebyshev")
    h.observe("cheb", poly.coefficients)
    for x in pts:
        got = poly.evaluate(np.array([x]))
        h.prove_close("eval-chebyshev", got, pval(p, x), rtol=0, atol=TOL)
    # vector evaluation shape
    got = poly.evaluate(np.array([OFFNODE]))
    h.prove("eval-vector-shape", Cond(b=np.shape(got) == (len(OFFNODE),)))
    poly.changeBasis("Cardinal")
    h.prove_all_close("roundtrip", poly.coefficients, vals, rtol=0, atol=TOL)
    # the Chebyshev coefficients reproduce p through matrix()
    mat = poly.matrix("Chebyshev", direction, endpoints)
    poly.changeBasis("Chebyshev")
    back = mat @ poly.coefficients
    h.prove_all_close("matrix-chebyshev", back, vals, rtol=0, atol=TOL)


def h_derivative(h, M, N, direction, endpoints, basis):
    h.patch_numeric(PM)
    grid = Grid(M, N, 1.0, 1.0)
    p, vals, nodes = generic_poly(h, grid, direction, endpoints)
    poly = Polynomial(vals.copy(), grid, "Cardinal", direction, endpoints)
    if basis == "Chebyshev":
        poly.changeBasis("Chebyshev")
    d = poly.derivative(0)
    full = grid.getCompactCoordinates(True, direction)
    h.prove("derivative-meta", Cond(b=d.basis == ("Cardinal",) and d.endpoints == (True,)
                                    and d.coefficients.shape == (len(full),)))
    dp = pder(p)
    scale = float(len(full)) ** 2  # |p'| <= deg^2 max|p|
    for i, x in enumerate(full):
        h.prove_close("derivative", d.coefficients[i], pval(dp, float(x)), rtol=0,
                      atol=TOL * scale)
    h.observe("deriv", d.coefficients)
    # derivMatrix is the same operator
    dm = poly.derivMatrix(basis, direction, endpoints)
    h.prove("derivMatrix-shape", Cond(b=dm.shape == (len(full), len(nodes))))


def h_integrate(h, M, N, direction, endpoints, basis, qdeg):
    h.patch_numeric(PM)
    grid = Grid(M, N, 1.0, 1.0)
    p, vals, nodes = generic_poly(h, grid, direction, endpoints)
    Meff = {"z": M, "pz": N, "pp": N - 1}[direction]
    # f = p * q * (1-x^2) must have degree <= 2*Meff-1
    degp = len(p) - 1
    if degp + qdeg + 2 > 2 * Meff - 1:
        # restrict p to lower degree by zeroing its top coefficients
        excess = degp + qdeg + 2 - (2 * Meff - 1)
        h.assume(AND(*[core.eq(c, 0) for c in _free(h)[-excess:]]), "degree restricted to the "
                 "Gauss-Lobatto exactness class")
    q = [0.0] * qdeg + [1.0]
    weight = np.array([pval(q, float(x)) * math.sqrt(max(0.0, 1 - float(x) ** 2)) for x in nodes])
    poly = Polynomial(vals.copy(), grid, "Cardinal", direction, endpoints)
    if basis == "Chebyshev":
        poly.changeBasis("Chebyshev")
    got = poly.integrate(weight=weight)
    f = pmul(pmul(p, q), [1.0, 0.0, -1.0])
    want = 0.0
    for k, c in enumerate(f):
        want = want + c * cheb_moment(k)
    h.prove_close("integral", got, want, rtol=0, atol=TOL * 10)
    h.observe("integral", got)


def _free(h):
    return [Sym(t) if t is not None else h.values[name] for name, t, _l, _h in h.inputs
            if name.startswith("a")]


def h_symbolic_point(h, M, direction, endpoints):
    """evaluate() at a symbolic point (cardinal basis): nonlinear, small M only."""
    h.patch_numeric(PM)
    grid = Grid(M, 3, 1.0, 1.0)
    p, vals, nodes = generic_poly(h, grid, direction, endpoints)
    poly = Polynomial(vals.copy(), grid, "Cardinal", direction, endpoints)
    x = h.real("x", -1, 1)
    got = poly.evaluate(np.array([x], dtype=object if h.symbolic else float))
    h.prove_close("eval-symbolic-point", got, pval(p, x), rtol=0, atol=TOL)


def h_multiaxis(h, M, N, layout, op):
    """Operations act independently along each axis and are linear: compare the rank-k
    result with the same 1-D operation applied slice by slice."""
    h.patch_numeric(PM)
    grid = Grid(M, N, 1.0, 1.0)
    # layout: tuple of (basis, direction, endpoints) per axis; 'Array' axes have length 2
    shape = []
    for b, d, e in layout:
        shape.append(2 if b == "Array" else size(grid, d, e))
    C = h.reals("c", tuple(shape), -1, 1, strict=False)
    basis = tuple(b for b, _, _ in layout)
    direction = tuple(d for _, d, _ in layout)
    endpoints = tuple(e for _, _, e in layout)
    ax = [i for i, (b, _, _) in enumerate(layout) if b != "Array"][-1]  # operate on last poly axis

    def one_d(vec):
        q = Polynomial(np.array(vec), grid, layout[ax][0], layout[ax][1], layout[ax][2])
        if op == "derivative":
            return q.derivative(0).coefficients
        if op == "toggle":
            q.changeBasis("Chebyshev" if layout[ax][0] == "Cardinal" else "Cardinal")
            return q.coefficients
        if op == "integrate":
            return np.asarray(q.integrate())
        raise ValueError(op)

    poly = Polynomial(C.copy(), grid, basis, direction, endpoints)
    if op == "toggle-all":
        # every polynomial axis changes basis in ONE call (axes may share direction and endpoints while
        # going in opposite senses): equal to toggling the axes one at a time with 1-D polynomials
        nb = tuple(b if b == "Array" else ("Chebyshev" if b == "Cardinal" else "Cardinal") for b in basis)
        poly.changeBasis(nb)
        h.prove("meta", Cond(b=poly.basis == nb))
        ref = C.copy()
        for a_, (b, d, e) in enumerate(layout):
            if b == "Array":
                continue
            mv = np.moveaxis(ref, a_, -1)
            new = np.empty(mv.shape, dtype=object)
            for idx in np.ndindex(*mv.shape[:-1]):
                q = Polynomial(np.array(mv[idx]), grid, b, d, e)
                q.changeBasis("Chebyshev" if b == "Cardinal" else "Cardinal")
                new[idx] = q.coefficients
            ref = np.moveaxis(new, -1, a_)
        h.prove_all_close("one call = one axis at a time", np.asarray(poly.coefficients), ref, rtol=0, atol=TOL * 100)
        return
    if op == "derivative":
        res = poly.derivative(ax)
        out = res.coefficients
        h.prove("meta", Cond(b=res.basis[ax] == "Cardinal" and res.endpoints[ax] is True
                             and all(res.basis[i] == basis[i] for i in range(len(basis)) if i != ax)))
    elif op == "toggle":
        nb = list(basis)
        nb[ax] = "Chebyshev" if basis[ax] == "Cardinal" else "Cardinal"
        poly.changeBasis(tuple(nb))
        out = poly.coefficients
        h.prove("meta", Cond(b=poly.basis == tuple(nb)))
    else:
        res = poly.integrate(axis=ax)
        out = res.coefficients
        h.prove("meta", Cond(b=res.basis == tuple(b for i, b in enumerate(basis) if i != ax)))
    out = np.asarray(out)
    moved = np.moveaxis(C, ax, -1)
    for idx in np.ndindex(*moved.shape[:-1]):
        ref = np.asarray(one_d(moved[idx]))
        if op == "integrate":
            got = out[idx]
            h.prove_close("axis-independence", got, ref, rtol=0, atol=TOL)
        else:
            got = np.moveaxis(out, ax, -1)[idx]
            h.prove_all_close("axis-independence", got, ref, rtol=0, atol=TOL * 100)
    # linearity: op(2*C) == 2*op(C) follows from the linear-form encoding; checked on the
    # scalar multiple through the Polynomial arithmetic
    poly2 = Polynomial(C.copy(), grid, basis, direction, endpoints) * 2.0
    h.prove_all_close("scalar-multiple", poly2.coefficients, 2.0 * C, rtol=0, atol=TOL)


def _lagrange(nodes, x):
    out = np.ones(len(nodes))
    for i, xi in enumerate(nodes):
        for j, xj in enumerate(nodes):
            if i != j:
                out[i] *= (x - xj) / (xi - xj)
    return out


def _basis_values(grid, basis, direction, endpoints, x):
    """values at x of the basis functions the coefficients refer to (independent of
    Polynomial.evaluate): cardinal functions of the full node set restricted to the kept
    nodes, or restricted Chebyshev polynomials."""
    full = np.asarray(grid.getCompactCoordinates(True, direction), dtype=float)
    n = size(grid, direction, endpoints)
    if basis == "Cardinal":
        lag = _lagrange(full, x)
        if endpoints:
            return lag
        return lag[1:-1] if direction in ("z", "pz") else lag[:-1]
    out = np.empty(n)
    for j in range(n):
        if endpoints:
            k = j
            out[j] = math.cos(k * math.acos(max(-1.0, min(1.0, x))))
        elif direction in ("z", "pz"):
            k = j + 2
            out[j] = math.cos(k * math.acos(x)) - (1.0 if k % 2 == 0 else x)
        else:
            k = j + 1
            out[j] = math.cos(k * math.acos(x)) - 1.0
    return out


def h_evaluate_axes(h, M, N, layout, axes):
    """evaluate(points, axes=subset) on a multi-axis array: each listed axis is evaluated in
    its own direction/basis, the others are kept."""
    h.patch_numeric(PM)
    grid = Grid(M, N, 1.0, 1.0)
    shape = [2 if b == "Array" else size(grid, d, e) for b, d, e in layout]
    C = h.reals("c", tuple(shape), -1, 1, strict=False)
    poly = Polynomial(C.copy(), grid, tuple(b for b, _, _ in layout), tuple(d for _, d, _ in layout),
                      tuple(e for _, _, e in layout))
    pts = np.array([[0.3, -0.55], [-0.7, 0.2], [0.45, 0.8]])[:len(axes)]
    got = np.asarray(poly.evaluate(pts, axes))
    keep = [i for i in range(len(layout)) if i not in axes]
    h.prove("shape", Cond(b=got.shape == (pts.shape[1],) + tuple(shape[i] for i in keep)))
    if got.shape != (pts.shape[1],) + tuple(shape[i] for i in keep):
        return
    for p in range(pts.shape[1]):
        vals = [_basis_values(grid, layout[a][0], layout[a][1], layout[a][2], float(pts[j, p]))
                for j, a in enumerate(axes)]
        for kidx in np.ndindex(*[shape[i] for i in keep]):
            want = 0.0
            for aidx in np.ndindex(*[shape[a] for a in axes]):
                w = 1.0
                for j in range(len(axes)):
                    w *= vals[j][aidx[j]]
                if w == 0.0:
                    continue
                full = [None] * len(layout)
                for j, a in enumerate(axes):
                    full[a] = aidx[j]
                for j, i in enumerate(keep):
                    full[i] = kidx[j]
                want = want + float(w) * C[tuple(full)]
            h.prove_close("evaluate along selected axes", got[(p,) + kidx], want, rtol=0, atol=TOL * 10)


DIRS = [("z", False), ("z", True), ("pz", False), ("pz", True), ("pp", False), ("pp", True)]


def _cases(Ms, Ns):
    out = []
    for d, e in DIRS:
        if d == "z":
            out += [dict(M=M, N=3, direction=d, endpoints=e) for M in Ms]
        else:
            out += [dict(M=3, N=N, direction=d, endpoints=e) for N in Ns]
    return out


_Q = _cases([2, 3, 4, 5, 6, 8], [3, 5, 7])
_T = _cases([2, 3, 4, 5, 6, 7, 8, 10, 12, 16, 20], [3, 5, 7, 9, 11])
_DQ = [dict(c, basis=b) for c in _Q for b in ("Cardinal", "Chebyshev")]
_DT = [dict(c, basis=b) for c in _T for b in ("Cardinal", "Chebyshev")]
_IQ = [dict(c, basis=b, qdeg=q) for c in _Q for b, q in (("Cardinal", 0), ("Chebyshev", 1),
                                                          ("Cardinal", 3))]
_IT = [dict(c, basis=b, qdeg=q) for c in _T for b in ("Cardinal", "Chebyshev") for q in (0, 1, 2, 5)]
_SQ = [dict(M=3, direction="z", endpoints=False), dict(M=3, direction="z", endpoints=True),
       dict(M=4, direction="z", endpoints=False)]
_ST = _SQ + [dict(M=5, direction="z", endpoints=False)]  # (M=4, endpoints) is `unknown` at 600 s
A = ("Array", "Array", False)
_MQ = [dict(M=4, N=3, layout=l, op=op) for op in ("derivative", "toggle", "integrate") for l in [
    (A, ("Cardinal", "z", False)),
    (("Cardinal", "z", True), A),
    (A, ("Cardinal", "z", False), ("Chebyshev", "pz", False), ("Cardinal", "pp", False)),
    (("Chebyshev", "pz", True), ("Cardinal", "pp", True)),
]]
_MQ += [dict(M=4, N=3, layout=l, op="toggle-all") for l in [
    (("Cardinal", "pz", False), ("Chebyshev", "pz", False)),
    (A, ("Chebyshev", "z", True), ("Cardinal", "z", True)),
    (("Chebyshev", "pp", False), ("Cardinal", "pp", False), ("Cardinal", "pz", False)),
    (A, ("Cardinal", "z", False), ("Chebyshev", "pz", False), ("Cardinal", "pp", False)),
]]
_MT = _MQ + [dict(M=5, N=5, layout=l, op=op) for op in ("derivative", "toggle", "integrate") for l in [
    (A, ("Chebyshev", "z", False), ("Cardinal", "pz", False), ("Cardinal", "pp", False)),
    (("Cardinal", "z", True), A, ("Chebyshev", "pp", False)),
]]

_AXQ = [dict(M=4, N=3, layout=(A, ("Cardinal", "pz", False), ("Cardinal", "pp", False)), axes=(1, 2)),
        dict(M=5, N=5, layout=(A, ("Cardinal", "pz", False), ("Chebyshev", "pp", False)), axes=(1, 2)),
        dict(M=4, N=3, layout=(("Cardinal", "z", False), A, ("Cardinal", "pz", True)), axes=(2,)),
        dict(M=4, N=5, layout=(("Cardinal", "pp", False), ("Cardinal", "z", True), A), axes=(0, 1)),
        dict(M=3, N=5, layout=(("Chebyshev", "z", False), ("Cardinal", "pz", False), ("Cardinal", "pp", False)), axes=(2, 0) if False else (0, 2))]
_AXT = _AXQ + [dict(M=6, N=5, layout=(A, ("Cardinal", "z", False), ("Cardinal", "pz", False), ("Cardinal", "pp", False)), axes=(2, 3)),
               dict(M=5, N=7, layout=(A, ("Cardinal", "pz", False), ("Cardinal", "pp", False), A), axes=(1, 2))]

HARNESSES = [
    HarnessDef("evaluate-axes", h_evaluate_axes, _AXQ, _AXT, max_paths=4, timeout_s=120,
               encodes=[Polynomial.evaluate, Polynomial.cardinal, Polynomial.chebyshev], random_validation=1),
    HarnessDef("roundtrip-evaluate", h_roundtrip_eval, _Q, _T, max_paths=4, timeout_s=120,
               encodes=[Polynomial.changeBasis, Polynomial.evaluate, Polynomial.cardinal,
                        Polynomial.chebyshev, Polynomial.matrix, Polynomial._chebyshevMatrix,
                        Grid.getCompactCoordinates, Grid.__init__], random_validation=2),
    HarnessDef("derivative", h_derivative, _DQ, _DT, max_paths=4, timeout_s=120,
               encodes=[Polynomial.derivative, Polynomial.derivMatrix, Polynomial._cardinalDeriv,
                        Polynomial._chebyshevDeriv], random_validation=2),
    HarnessDef("integrate", h_integrate, _IQ, _IT, max_paths=4, timeout_s=120,
               encodes=[Polynomial.integrate], random_validation=2),
    HarnessDef("symbolic-point", h_symbolic_point, _SQ, _ST, max_paths=4, timeout_s=120,
               encodes=[Polynomial.evaluate, Polynomial.cardinal], random_validation=2),
    HarnessDef("multi-axis", h_multiaxis, _MQ, _MT, max_paths=4, timeout_s=120,
               encodes=[Polynomial.__init__, Polynomial.__mul__, Polynomial.derivative,
                        Polynomial.changeBasis, Polynomial.integrate], random_validation=1),
]

MANIFEST = {
    "text": "For every enumerated grid size, direction, endpoint variant and basis, z3 (QF_LRA) "
            "proves for ALL polynomials of the admissible degree (symbolic monomial coefficients "
            "in [-1,1], times the direction's boundary factor) that the real Polynomial methods "
            "return p(x) at nodes and off-node points in both bases, the identity after a basis "
            "round trip, p'(x_i) at every node including the boundaries, and the closed-form "
            "Chebyshev-weight integral inside the Gauss-Lobatto exactness class; multi-axis "
            "arrays with symbolic entries are shown to be processed slice by slice. Tolerance "
            "1e-8 absolute. Exhaustive over M<=8, N<=7 (quick) / M<=20, N<=11 (thorough)."
            " changeBasis of all axes in one call (axes sharing direction and endpoints, opposite senses) equals one axis at a time.",
    "note": "Concrete nodes and matrices are the real code's doubles taken as exact rationals; "
            "the rounding of operations on the symbolic coefficients is outside; evaluation at a "
            "symbolic point only for M<=5 in the cardinal basis.",
}
