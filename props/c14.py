"""C14 -- collision data act identically after loading, basis change and interpolation.

`CollisionArray.newFromDirectory` runs against an in-memory fake of h5py whose datasets hold
symbolic numbers and whose fault pattern (missing pair file, size / basis mismatch between
files, grid larger than file) is enumerated; `changeBasis` and `interpolateCollisionArray` run
on tensors with symbolic entries.  All claims are linear in the symbolic tensor entries
(QF_LRA): element-by-element identity of the loaded blocks, operator invariance under the
inverse-transpose basis change (checked on the unit distributions, hence for all by
linearity), and interpolation = evaluation of the old blocks at the new nodes with the
Chebyshev indices truncated, pair by pair.
"""
import pathlib
import types

import numpy as np
import z3

import WallGo.collisionArray as CA
import WallGo.boltzmann as BZ
import WallGo.polynomial as PM
from WallGo.collisionArray import CollisionArray
from WallGo.exceptions import CollisionLoadError
from WallGo.grid import Grid
from WallGo.polynomial import Polynomial

from symx import core, npx
from symx.core import AND, Cond, Sym, close, eq
from symx.harness import HarnessDef, bare

EXPLANATION = __doc__
BOUNDS = {"particles": "1..3 (3 only for N_file=5 -> N_grid=3)", "sizes": "N_file in {3,5,7}, N_grid in {3,5}",
          "faults": "each single fault kind at each pair position, for 1-2 particles",
          "tensors": "all entries symbolic in [-1,1]; tolerance 1e-9 absolute"}
OUTSIDE = ["real HDF5 I/O (h5py replaced by an in-memory fake with the same access pattern)",
           "float rounding of the tensor contractions"]
ASSUMPTIONS = ["basis matrices and cardinal functions at concrete nodes are the doubles the real "
               "code computes, taken as exact rationals"]
TOL = 1e-8


class _Attrs(dict):
    pass


class FakeFile:
    def __init__(self, size, btype, name, data):
        self._items = {"metadata": types.SimpleNamespace(attrs={"Basis Size": size,
                                                                "Basis Type": btype.encode()}),
                       name: data}

    def __enter__(self):
        return self

    def __exit__(self, *a):
        return False

    def __getitem__(self, k):
        return self._items[k]


class FakeH5:
    def __init__(self, files):
        self.files = files
        self.opened = []

    def File(self, path, mode="r"):
        self.opened.append(path)
        if path not in self.files:
            raise FileNotFoundError(path)
        return self.files[path]


def particles(n):
    return [types.SimpleNamespace(name=nm) for nm in ("top", "W", "Z")[:n]]


def _patch(h):
    h.patch_numeric(CA)
    h.patch_numeric(PM)


def h_load(h, P, N, fault, where, stored="Chebyshev", requested="Chebyshev"):
    # the pair files exist as (empty) files in a scratch directory, so that code which looks at the
    # file system first sees the same directory as the stubbed h5py does; removed afterwards
    import shutil
    import tempfile
    scratch = tempfile.mkdtemp(prefix="verif_c14_")
    try:
        _h_load(h, P, N, fault, where, stored, requested, pathlib.Path(scratch))
    finally:
        shutil.rmtree(scratch, ignore_errors=True)


def _h_load(h, P, N, fault, where, stored, requested, directory):
    _patch(h)
    parts = particles(P)
    grid = Grid(3, N, 1.0, 1.0)
    files, data = {}, {}
    k = 0
    for i, a in enumerate(parts):
        for j, b in enumerate(parts):
            size, btype = N, stored
            faulty = (fault != "none" and k == where)
            if faulty and fault == "size":
                size = N + 2
            if faulty and fault == "basis":
                btype = "Cardinal" if stored == "Chebyshev" else "Chebyshev"
            if faulty and fault == "small":
                size = N - 2
            d = h.reals(f"c{i}{j}", (size - 1,) * 4, -1, 1, strict=False)
            data[(i, j)] = d
            if not (faulty and fault == "missing"):
                path = directory / f"collisions_{a.name}_{b.name}.hdf5"
                path.touch()
                files[str(path)] = FakeFile(size, btype, a.name + ", " + b.name, d)
            k += 1
    fake = FakeH5(files)
    h.patch_always(CA, h5py=fake)
    # go through BoltzmannSolver.loadCollisions so that the "previous array stays" part is real
    bs = bare(BZ.BoltzmannSolver)
    bs.grid, bs.basisN, bs.offEqParticles = grid, requested, parts
    sentinel = object()
    bs.collisionArray = sentinel
    expect_error = fault in ("missing", "size", "basis", "small") and not (
        fault in ("size", "basis") and P == 1 and False)
    if fault in ("size", "basis") and where == 0 and P > 1:
        # the first file defines the reference: the mismatch is seen at the second file
        expect_error = True
    if fault in ("size", "basis") and P == 1:
        # a single file cannot mismatch itself: size N+2 is an ordinary larger file
        expect_error = False
    try:
        bs.loadCollisions(directory)
        raised = None
    except CollisionLoadError as ex:
        raised = ex
    # anything else (AssertionError, KeyError...) escapes and is reported as a violation
    if expect_error:
        h.prove("fault => CollisionLoadError", Cond(b=raised is not None))
        h.prove("fault => previous collision array left in place", Cond(b=bs.collisionArray is sentinel))
        return
    if fault == "size" and P == 1 or fault == "basis" and P == 1:
        return
    h.prove("no fault => no error", Cond(b=raised is None))
    arr = bs.collisionArray.polynomialData.coefficients
    h.prove("complete array installed", Cond(b=arr.shape == (P, N - 1, N - 1, P, N - 1, N - 1)))
    h.prove("installed array is in the requested basis", Cond(b=bs.collisionArray.getBasisType() == requested))
    if stored != requested:
        # the numbers are the stored ones expressed in the requested basis: going back recovers them
        bs.collisionArray.changeBasis(stored)
        arr = bs.collisionArray.polynomialData.coefficients
    for (i, j), d in data.items():
        blk = arr[i, :, :, j, :, :]
        for idx in np.ndindex(*d.shape):
            if stored != requested:
                h.prove_close(f"loaded block ({i},{j}), taken back to the stored basis, is the stored dataset",
                              blk[idx], d[idx], rtol=0, atol=TOL)
            else:
                h.prove_eq(f"loaded block ({i},{j}) is the stored dataset", blk[idx], d[idx])


def _apply(C, f):
    """(C f)[a,j,k] = sum_{b,m,n} C[a,j,k,b,m,n] f[b,m,n]"""
    out = np.empty(C.shape[:3], dtype=object)
    for idx in np.ndindex(*C.shape[:3]):
        s = 0.0
        for jdx in np.ndindex(*C.shape[3:]):
            if f[jdx] != 0:
                s = s + C[idx + jdx] * float(f[jdx])
        out[idx] = s
    return out


def h_basis(h, P, N, start):
    _patch(h)
    parts = particles(P)
    grid = Grid(3, N, 1.0, 1.0)
    n = N - 1
    C = h.reals("C", (P, n, n, P, n, n), -1, 1, strict=False)
    other = "Cardinal" if start == "Chebyshev" else "Chebyshev"
    poly = Polynomial(C.copy(), grid, ("Array", "Cardinal", "Cardinal", "Array", start, start),
                      CollisionArray.AXIS_TYPES, endpoints=False)
    ca = CollisionArray.newFromPolynomial(poly, parts)
    ca.changeBasis(other)
    C2 = ca.polynomialData.coefficients
    h.prove("basis recorded", Cond(b=ca.getBasisType() == other))
    # unit distributions in the start basis, transformed with the ordinary change of basis
    for b in range(P):
        for m in range(n):
            for q in range(n):
                f = np.zeros((P, n, n))
                f[b, m, q] = 1.0
                fp = Polynomial(f.copy(), grid, ("Array", start, start), ("z", "pz", "pp"), False)
                fp.changeBasis(("Array", other, other))
                got = _apply(C2, np.asarray(fp.coefficients, dtype=float))
                want = C[:, :, :, b, m, q]
                for idx in np.ndindex(*want.shape):
                    h.prove_close(f"C' f' = C f for unit distribution ({b},{m},{q})", got[idx],
                                  want[idx], rtol=0, atol=TOL)
    # and back again is the identity
    ca.changeBasis(start)
    h.prove_all_close("round trip", ca.polynomialData.coefficients, C, rtol=0, atol=TOL)


def _lagrange(nodes, x):
    """values of the cardinal functions of `nodes` at x (independent implementation)"""
    out = np.ones(len(nodes))
    for i, xi in enumerate(nodes):
        for j, xj in enumerate(nodes):
            if i != j:
                out[i] *= (x - xj) / (xi - xj)
    return out


def h_interp(h, P, Nfile, Ngrid, basis, keep=None):
    _patch(h)
    parts = particles(P)
    src_grid = Grid(3, Nfile, 1.0, 1.0)
    tgt = Grid(3, Ngrid, 1.0, 1.0)
    n, nn = Nfile - 1, Ngrid - 1
    if keep is None:
        C = h.reals("C", (P, n, n, P, n, n), -1, 1, strict=False)
    else:
        # large stored grids: the tensor is arbitrary on the listed polynomial-index pairs (m, q) and
        # zero elsewhere (the interpolation acts on the momentum axes (j, k), linearly and separately
        # for every (m, q)); keeps the number of symbols at |keep| * P^2 * n^2
        C = np.zeros((P, n, n, P, n, n), dtype=object if h.symbolic else float)
        for (m, q) in keep:
            for a in range(P):
                for b in range(P):
                    for j in range(n):
                        for k in range(n):
                            C[a, j, k, b, m, q] = h.real(f"C_{a}_{j}_{k}_{b}_{m}_{q}", -1, 1, strict=False)
    poly = Polynomial(C.copy(), src_grid, ("Array", "Cardinal", "Cardinal", "Array", basis, basis),
                      CollisionArray.AXIS_TYPES, endpoints=False)
    src = CollisionArray.newFromPolynomial(poly, parts)
    new = CollisionArray.interpolateCollisionArray(src, tgt)
    h.prove("input not modified", Cond(b=src.polynomialData.coefficients.shape == C.shape
                                       and src.getBasisType() == basis))
    out = new.polynomialData.coefficients
    h.prove("shape", Cond(b=out.shape == (P, nn, nn, P, nn, nn)))
    if out.shape != (P, nn, nn, P, nn, nn):
        return
    # oracle in the Chebyshev basis of the polynomial indices
    if basis == "Chebyshev":
        Cc = C
        outc = out
    else:
        s2 = CollisionArray.newFromPolynomial(Polynomial(
            C.copy(), src_grid, ("Array", "Cardinal", "Cardinal", "Array", basis, basis),
            CollisionArray.AXIS_TYPES, endpoints=False), parts)
        s2.changeBasis("Chebyshev")
        Cc = s2.polynomialData.coefficients
        n2 = CollisionArray.newFromPolynomial(Polynomial(
            np.array(out), tgt, ("Array", "Cardinal", "Cardinal", "Array", basis, basis),
            CollisionArray.AXIS_TYPES, endpoints=False), parts)
        n2.changeBasis("Chebyshev")
        outc = n2.polynomialData.coefficients
    # cardinal functions of the old grid (with end points, where the functions vanish)
    rz_old = np.array([-1.0] + list(src_grid.rzValues) + [1.0])
    rp_old = np.array(list(src_grid.rpValues) + [1.0])
    for a in range(P):
        for b in range(P):
            for jp, x in enumerate(tgt.rzValues):
                lz = _lagrange(rz_old, float(x))[1:-1]
                for kp, y in enumerate(tgt.rpValues):
                    lp = _lagrange(rp_old, float(y))[:-1]
                    for m in range(nn):
                        for q in range(nn):
                            want = 0.0
                            for j in range(n):
                                for k in range(n):
                                    w = float(lz[j] * lp[k])
                                    if w != 0.0:
                                        want = want + w * Cc[a, j, k, b, m, q]
                            h.prove_close(f"pair ({a},{b}): interpolated block = old block "
                                          f"evaluated at the new nodes", outc[a, jp, kp, b, m, q],
                                          want, rtol=0, atol=TOL * 10)


_LQ = [dict(P=1, N=3, fault="none", where=0), dict(P=2, N=3, fault="none", where=0),
       dict(P=3, N=3, fault="none", where=0)] + \
    [dict(P=2, N=3, fault=f, where=w) for f in ("missing", "size", "basis") for w in (0, 1, 3)] + \
    [dict(P=1, N=5, fault="small", where=0), dict(P=1, N=3, fault="missing", where=0)]
_LQ += [dict(P=2, N=3, fault="none", where=0, stored="Cardinal", requested="Chebyshev"),
        dict(P=1, N=3, fault="none", where=0, stored="Chebyshev", requested="Cardinal"),
        dict(P=2, N=3, fault="basis", where=1, stored="Cardinal", requested="Chebyshev")]
_LT = _LQ + [dict(P=2, N=3, fault="none", where=0, stored="Cardinal", requested="Cardinal"),
             dict(P=3, N=3, fault="none", where=0, stored="Chebyshev", requested="Cardinal")] + [dict(P=2, N=3, fault=f, where=2) for f in ("missing", "size", "basis")] + \
    [dict(P=2, N=5, fault="small", where=3)]
_BQ = [dict(P=1, N=3, start="Chebyshev"), dict(P=2, N=3, start="Cardinal"), dict(P=1, N=5, start="Cardinal")]
_BT = _BQ + [dict(P=2, N=5, start="Chebyshev"), dict(P=3, N=3, start="Chebyshev")]
_IQ = [dict(P=1, Nfile=5, Ngrid=3, basis="Chebyshev"), dict(P=2, Nfile=5, Ngrid=3, basis="Chebyshev"),
       dict(P=1, Nfile=5, Ngrid=3, basis="Cardinal")]
# stored sizes that are multiples of the target size (and not): node-nesting shortcuts live there
_IQ += [dict(P=1, Nfile=15, Ngrid=5, basis="Chebyshev", keep=((0, 0), (1, 2))),
        dict(P=1, Nfile=9, Ngrid=3, basis="Chebyshev", keep=((0, 1),))]
_IT = _IQ + [dict(P=1, Nfile=21, Ngrid=7, basis="Chebyshev", keep=((2, 1),)),
             dict(P=2, Nfile=15, Ngrid=5, basis="Chebyshev", keep=((1, 0),)),
             dict(P=1, Nfile=25, Ngrid=5, basis="Chebyshev", keep=((0, 3),)),
             dict(P=1, Nfile=15, Ngrid=7, basis="Chebyshev", keep=((3, 3),)),
             dict(P=1, Nfile=15, Ngrid=5, basis="Cardinal", keep=((0, 0),))] + [dict(P=3, Nfile=5, Ngrid=3, basis="Chebyshev"), dict(P=1, Nfile=7, Ngrid=5, basis="Chebyshev"),
             dict(P=2, Nfile=7, Ngrid=3, basis="Cardinal")]  # (equal sizes are not "a smaller grid": interpolateCollisionArray asserts strict decrease)

HARNESSES = [
    HarnessDef("load", h_load, _LQ, _LT, max_paths=4, timeout_s=60,
               encodes=[CollisionArray.newFromDirectory, BZ.BoltzmannSolver.loadCollisions,
                        CollisionArray.newFromPolynomial], random_validation=1),
    HarnessDef("basis-change", h_basis, _BQ, _BT, max_paths=4, timeout_s=120,
               encodes=[CollisionArray.changeBasis, Polynomial.changeBasis], random_validation=1),
    HarnessDef("interpolate", h_interp, _IQ, _IT, max_paths=4, timeout_s=120,
               encodes=[CollisionArray.interpolateCollisionArray, Polynomial.evaluate],
               random_validation=1),
]

MANIFEST = {
    "text": "Loading: for 1-3 particles with symbolic stored numbers the installed array holds, "
            "block by block and element by element, the dataset of each ordered pair; every "
            "enumerated fault (missing file, size or basis mismatch between files, file smaller "
            "than the grid) ends in CollisionLoadError with the previously installed array left "
            "in place. Basis change: for every tensor (symbolic; QF_LRA) C' f' = C f on all unit "
            "distributions and the round trip is the identity. Interpolation: for every tensor and "
            "every ordered pair the new block equals the old block evaluated at the new nodes "
            "(independent Lagrange evaluation) with Chebyshev indices truncated, for 1-3 particles."
            " Interpolation is also decided for stored sizes 15, 21, 25 (multiples and non-multiples of the target size) with the tensor symbolic on chosen polynomial-index pairs."
            " Pair files exist on disk in a scratch directory, so existence checks and the stubbed h5py see the same directory; a failed load keeps the previous array.",
    "note": "h5py replaced by an in-memory fake; tolerance 1e-8; sizes as enumerated.",
}
