"""Shared stubs for the hydrodynamics / EOM harnesses (C01-C06, C15).

* ThermoStub -- Thermodynamics stand-in: p, dp, ddp of each phase are uninterpreted
  functions of T (concrete mode: bag-like default EOS or the solver model's values); e, w, de,
  csq are built from them exactly as WallGo.Thermodynamics does (C10 checks the real class).
* scipy stubs with contracts (root, root_scalar, minimize_scalar, solve_ivp): in symbolic mode
  they return fresh values constrained by the contract "the call succeeded and returned a zero
  / minimiser of the closure it was given"; in concrete mode they return the model's values
  when replaying and call the real scipy otherwise.
"""
from __future__ import annotations

import math
import types

import numpy as np
import scipy.optimize as _so
import scipy.integrate as _si
import z3

from symx import core
from symx.core import AND, OR, Cond, Sym, eq, ge, gt, le, lt, ne


class FEStub:
    def __init__(self, tmin, tmax, minflag=False, maxflag=False):
        self.minPossibleTemperature = [tmin, minflag]
        self.maxPossibleTemperature = [tmax, maxflag]


class ThermoStub:
    """EOS as UFs of T per phase: pressure P, enthalpy W > 0 and sound speed squared C in
    (0,1).  e = W - P, dp = W/T, de = dp/C, ddp = de/T -- the relations of
    WallGo.Thermodynamics (checked on the real class by C10), arranged so that e, w, p stay
    linear in the UF atoms."""

    def __init__(self, h, Tnucl, aH=1.0, aL=0.8, eps=0.1, stability=True, tranges=None):
        self.h = h
        self.Tnucl = Tnucl
        self.stability = stability
        tn = float(core.unbox(Tnucl)) if not h.symbolic else 1.0
        e0 = eps * tn**4
        d = {
            "PH": lambda T: aH / 3 * T**4 - e0, "WH": lambda T: 4 * aH / 3 * T**4,
            "CH": lambda T: 1 / 3.0,
            "PL": lambda T: aL / 3 * T**4, "WL": lambda T: 4 * aL / 3 * T**4,
            "CL": lambda T: 1 / 3.0,
        }
        self.f = {k: h.ufun(k, v) for k, v in d.items()}
        tr = tranges or {}
        self.freeEnergyHigh = FEStub(*tr.get("H", (0.0, math.inf)))
        self.freeEnergyLow = FEStub(*tr.get("L", (0.0, math.inf)))
        self._seen = set()

    def _stab(self, k, T):
        if not self.stability:
            return
        key = (k, str(T))
        if key in self._seen:
            return
        self._seen.add(key)
        w, c = self.f["W" + k](T), self.f["C" + k](T)
        self.h.assume(AND(gt(T, 0), gt(w, 0), gt(c, 0), lt(c, 1)),
                      "EOS stability wherever consulted: T>0, w>0, 0<cs^2<1")

    def _w(self, k, T):
        self._stab(k, T)
        return self.f["W" + k](T)

    def _c(self, k, T):
        self._stab(k, T)
        return self.f["C" + k](T)

    def pHighT(self, T): self._stab("H", T); return self.f["PH"](T)
    def pLowT(self, T): self._stab("L", T); return self.f["PL"](T)
    def wHighT(self, T): return self._w("H", T)
    def wLowT(self, T): return self._w("L", T)
    def csqHighT(self, T): return self._c("H", T)
    def csqLowT(self, T): return self._c("L", T)
    def dpHighT(self, T): return self._w("H", T) / T
    def dpLowT(self, T): return self._w("L", T) / T
    def eHighT(self, T): return self._w("H", T) - self.pHighT(T)
    def eLowT(self, T): return self._w("L", T) - self.pLowT(T)
    def deHighT(self, T): return self.dpHighT(T) / self._c("H", T)
    def deLowT(self, T): return self.dpLowT(T) / self._c("L", T)
    def ddpHighT(self, T): return self.deHighT(T) / T
    def ddpLowT(self, T): return self.deLowT(T) / T

    def alpha(self, T):
        return (self.eHighT(T) - self.eLowT(T) - (self.pHighT(T) - self.pLowT(T))
                / self.csqLowT(T)) / 3 / self.wHighT(T)


def replaying(h, name):
    """True when the next fresh value called `name` is supplied by a solver model."""
    return f"{name}#{h.nfresh + 1}" in h.values


class Result(types.SimpleNamespace):
    pass


class ScipyStubs:
    """Contract stubs.  Every call is logged in h.events."""

    def __init__(self, h, assume_bracket=True, root_zero=True, bad_bracket="assume",
                 nondet_converged=False, probe_after_root=False):
        """bad_bracket: 'assume' -- the bracket precondition f(a) f(b) <= 0 is part of the
        contract (paths violating it are outside the claim); 'raise' -- raise ValueError like
        scipy does (for code that catches it as a designed branch)."""
        self.h = h
        # scipy's bracketing methods raise on non-convergence (disp=True), so a returned
        # result is converged; nondet_converged=True also explores converged=False for code
        # that reads the flag
        self.nondet_converged = nondet_converged
        self.probe_after_root = probe_after_root
        self.bad_bracket = bad_bracket
        self.assume_bracket = assume_bracket
        self.root_zero = root_zero
        self.calls = []

    # ---- scalar root ---------------------------------------------------------------
    def root_scalar(self, f, args=(), method=None, bracket=None, x0=None, x1=None, xtol=None,
                    rtol=None, **kw):
        h = self.h
        self.calls.append(("root_scalar", method, bracket, xtol, rtol))
        h.event("root_scalar", method, "bracket" if bracket is not None else "secant")
        if h.mode == "conc" and not replaying(h, "root"):
            h.nfresh += 2 if self.nondet_converged else 1
            try:
                res = _so.root_scalar(f, args=args, method=method, bracket=bracket, x0=x0, x1=x1,
                                      xtol=xtol, rtol=rtol, **kw)
                self.last_root = res.root
                return res
            except ValueError:
                if self.bad_bracket == "raise":
                    raise
                raise core.PathAbort("bracket precondition of root_scalar not met")
        if bracket is not None:
            a, b = bracket[0], bracket[1]
            if self.assume_bracket:
                fa, fb = f(a, *args), f(b, *args)
                if not _nonpos_product(h, fa, fb):
                    if self.bad_bracket == "raise":
                        raise ValueError("f(a) and f(b) must have different signs")
                    raise core.PathAbort("bracket precondition of root_scalar not met")
            r = h.fresh("root")
            h.assume(OR(AND(le(a, r), le(r, b)), AND(le(b, r), le(r, a))))
        else:
            r = h.fresh("root")
        conv = h.flag("converged") if self.nondet_converged else True
        if conv and self.root_zero:
            h.assume(eq(f(r, *args), 0), "root_scalar contract: a converged result is a zero of "
                     "the function it was given")
        if self.probe_after_root and bracket is not None:
            # a bracketing solver returns the better of its last two iterates: the point it evaluated
            # LAST is in general not the root it returns
            q = h.fresh("probe")
            h.assume(OR(AND(le(a, q), le(q, b)), AND(le(b, q), le(q, a))))
            f(q, *args)
            self.last_root = r
            return Result(root=r, converged=conv, flag="converged" if conv else "convergence error", probe=q)
        self.last_root = r
        return Result(root=r, converged=conv, flag="converged" if conv else "convergence error")

    def brentq(self, f, a, b, args=(), xtol=None, rtol=None, **kw):
        res = self.root_scalar(f, args=args, method="brentq", bracket=[a, b], xtol=xtol, rtol=rtol)
        return res.root

    # ---- vector root (hybr) -------------------------------------------------------------
    def root(self, fun, x0, method=None, options=None, **kw):
        h = self.h
        self.calls.append(("root", method, options))
        h.event("root", method)
        if h.mode == "conc" and not replaying(h, "rootx"):
            h.nfresh += len(x0) + 1
            return _so.root(fun, x0, method=method, options=options, **kw)
        x = [h.fresh("rootx") for _ in x0]
        success = h.flag("root_success")
        fv = fun(x)
        fv = np.array(list(fv), dtype=object if h.symbolic else float)
        if self.root_zero:
            for c in fv:
                h.assume(eq(c, 0), "root (hybr) contract: the accepted result is an exact zero "
                         "of the residual (acceptance with non-zero residual is outside the claim)")
        return Result(x=np.array(x, dtype=object if h.symbolic else float), success=success, fun=fv,
                      message="stub")

    # ---- bounded scalar minimisation --------------------------------------------------
    def minimize_scalar(self, fun, bounds=None, method=None, args=(), **kw):
        h = self.h
        self.calls.append(("minimize_scalar", method, bounds))
        h.event("minimize_scalar", method)
        if h.mode == "conc" and not replaying(h, "argmin"):
            h.nfresh += 2
            return _so.minimize_scalar(fun, bounds=bounds, method=method, args=args, **kw)
        x = h.fresh("argmin")
        if bounds is not None:
            h.assume(AND(le(bounds[0], x), le(x, bounds[1])))
        success = h.flag("min_success")
        return Result(x=x, fun=fun(x, *args), success=success, message="stub")


def _nonpos_product(h, fa, fb):
    """eager decision fa*fb <= 0 (forks in symbolic mode)."""
    p = fa * fb
    return bool(p <= 0)


def tolerance_claims(h, st, hy, where=""):
    """every root search inside Hydrodynamics gets xtol = the absolute and rtol = the relative
    tolerance of the object (they have different dimensions: swapping them is a units bug)"""
    from symx.core import Cond
    for c in st.calls:
        if c[0] == "root_scalar" and (c[3] is not None or c[4] is not None):
            h.prove(where + "root search tolerances: xtol = atol (absolute), rtol = rtol (relative)",
                    Cond(b=(c[3] == hy.atol) and (c[4] == hy.rtol)))
