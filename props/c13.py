"""C13 -- out-of-equilibrium moments are the momentum integrals they are defined to be.

`BoltzmannSolver.getDeltas` runs on a deviation delta f whose entries are symbolic (so every
moment is a linear form in them: QF_LRA) and is compared with the defining quadrature
  Delta_X = sum_{j,k} W_jk X_jk delta f_jk / E_jk ,  X in {1, pz^2, E^2, E pz},
with W = (dpz/drz)(dpp/drp) pp/(4 pi^2) times Gauss-Chebyshev-Lobatto weights, all written
independently in the harness from the definition of the momentum maps.  `EOM.deltaToTmunu`
runs on symbolic moments, masses and velocity and is compared with the direct boosted
integrals  T33 = gamma^2 <(pz + v E)^2>,  T30 = gamma^2 <(pz + v E)(E + v pz)>.
"""
import math
import types

import numpy as np
import z3

import WallGo.boltzmann as BZ
import WallGo.equationOfMotion as EOMM
import WallGo.polynomial as PM
from WallGo.fields import FieldPoint, Fields
from WallGo.grid import Grid

from symx import core, npx
from symx.core import AND, Cond, Sym, close, eq
from symx.harness import HarnessDef, bare

EXPLANATION = __doc__
BOUNDS = {"grids": "M in {3,4}, N in {3,5} quick; N=7 thorough; momentum scale T0 in {1, 0.37, 25}",
          "particles": "1-2 with position-dependent mass^2 (concrete rational profiles)",
          "delta f": "every entry symbolic in [-1,1] (linearity makes the claim hold for all "
                     "deviations)", "bases": "Cardinal and Chebyshev in both position and momentum"}
OUTSIDE = ["exactness of the quadrature for non-polynomial integrands (C16 covers the class)",
           "estimateTruncationError / checkLinearization (stubbed: they do not feed the moments)",
           "symbolic masses inside getDeltas (energies are square roots: concrete profiles used)"]
ASSUMPTIONS = ["grid nodes and E = sqrt(m^2+pz^2+pp^2) are concrete doubles taken as exact rationals",
               "tolerance 1e-9 relative to the sum of |weights|"]


def cheb_nodal(coeffs_axis_len, x, kind):
    """matrix mapping restricted-Chebyshev coefficients to nodal values (independent of
    Polynomial): kind 'full' -> T_n - (1 or x), n=2..; 'partial' -> T_n - 1, n=1.."""
    n0 = 2 if kind == "full" else 1
    M = np.empty((len(x), coeffs_axis_len))
    for j in range(coeffs_axis_len):
        n = n0 + j
        t = np.cos(n * np.arccos(np.clip(x, -1, 1)))
        if kind == "full":
            t = t - (1.0 if n % 2 == 0 else x)
        else:
            t = t - 1.0
        M[:, j] = t
    return M


def make_solver(h, M, N, T0, basisM, basisN, nparticles, rescale=False, real_truncation=False):
    h.patch_numeric(BZ)
    h.patch_numeric(PM)
    if rescale:
        # history: the grid was built with another momentum scale and rescaled through the public API
        grid = Grid(M, N, 1.3, 2.7 * T0)
        grid.changeMomentumFalloffScale(T0)
    else:
        grid = Grid(M, N, 1.3, T0)
    bs = bare(BZ.BoltzmannSolver)
    bs.grid = grid
    bs.basisM, bs.basisN = basisM, basisN
    bs.derivatives = "Spectral"
    bs.collisionMultiplier = 1.0
    prof = np.linspace(0.0, 1.5, M + 1)
    bs.background = types.SimpleNamespace(fieldProfiles=Fields.castFromNumpy(prof[:, None]))
    parts = []
    for k in range(nparticles):
        a, b = [(0.25, 1.5), (2.0, 0.5)][k]
        parts.append(types.SimpleNamespace(
            msqVacuum=(lambda f, a=a, b=b: a + b * np.asarray(f.getField(0)) ** 2),
            totalDOFs=[12, 6][k], statistics="Fermion"))
    bs.offEqParticles = parts
    if not real_truncation:
        bs.estimateTruncationError = lambda d: 0.0
    bs.checkLinearization = lambda d=None: (np.zeros(nparticles), np.zeros(nparticles))
    return bs, grid, prof


def h_deltas(h, M, N, T0, basisM, basisN, nparticles, rescale=False, real_truncation=False):
    bs, grid, prof = make_solver(h, M, N, T0, basisM, basisN, nparticles, rescale, real_truncation)
    shape = (nparticles, M - 1, N - 1, N - 1)
    dF = h.reals("df", shape, -1, 1, strict=False)
    handed = dF.copy()
    res = bs.getDeltas(handed)
    D = res.Deltas
    if real_truncation:
        # the real truncation-error diagnostic runs before the moments are taken: it is a read-only
        # estimate -- the deviation handed in (and returned in the results) is not rewritten by it
        for idx in np.ndindex(*shape):
            same = (handed[idx] is dF[idx]) or (isinstance(handed[idx], Sym) and isinstance(dF[idx], Sym)
                                                 and handed[idx].t.eq(dF[idx].t)) \
                or (not isinstance(handed[idx], Sym) and not isinstance(dF[idx], Sym) and handed[idx] == dF[idx])
            h.prove(f"the deviation handed to getDeltas is left as it was {list(idx)}", Cond(b=bool(same)))
    # ---- independent oracle
    rz = -np.cos(np.arange(1, N) * np.pi / N)
    rp = -np.cos(np.arange(0, N - 1) * np.pi / (N - 1))
    chi = -np.cos(np.arange(1, M) * np.pi / M)
    pz = 2 * T0 * np.arctanh(rz)
    pp = -T0 * np.log((1 - rp) / 2)
    dpz = 2 * T0 / (1 - rz**2)
    dpp = T0 / (1 - rp)
    wz = np.pi / N * np.sqrt(1 - rz**2)
    wp = np.pi / (N - 1) * np.sqrt(1 - rp**2)
    wp[0] = wp[0] / 2  # kept end point rho_par = -1 carries half weight (and sqrt(...)=0)
    # nodal values of delta f
    nodal = dF
    if basisM == "Chebyshev":
        Tm = cheb_nodal(M - 1, chi, "full")
        nodal = np.einsum("ai,pijk->pajk", Tm, nodal) if not h.symbolic else _contract(Tm, nodal, 1)
    if basisN == "Chebyshev":
        Tz = cheb_nodal(N - 1, rz, "full")
        Tp = cheb_nodal(N - 1, rp, "partial")
        nodal = _contract(Tz, nodal, 2)
        nodal = _contract(Tp, nodal, 3)
    field = prof[1:-1]
    for p in range(nparticles):
        a, b = [(0.25, 1.5), (2.0, 0.5)][p]
        msq = a + b * field**2
        for i in range(M - 1):
            E = np.sqrt(msq[i] + pz[:, None] ** 2 + pp[None, :] ** 2)
            W = (wz * dpz)[:, None] * (wp * dpp * pp)[None, :] / (4 * np.pi**2) / E
            wsum = float(np.sum(np.abs(W)))
            for name, X in (("Delta00", 1.0), ("Delta02", pz[:, None] ** 2 + 0 * E),
                            ("Delta20", E**2), ("Delta11", E * pz[:, None])):
                WX = W * X
                want = 0.0
                for j in range(N - 1):
                    for k in range(N - 1):
                        want = want + float(WX[j, k]) * nodal[p, i, j, k]
                got = getattr(D, name).coefficients[p, i]
                scale = float(np.sum(np.abs(WX))) * (4.0 if basisN == "Chebyshev" else 1.0) \
                    * (2.0 if basisM == "Chebyshev" else 1.0)
                h.prove_close(f"{name}[particle {p}, point {i}]", got, want, rtol=0,
                              atol=1e-9 * max(scale, 1e-30) * (N * N))
                if i == 0 and p == 0:
                    h.observe(name, got)
    h.prove("Delta shapes", Cond(b=all(getattr(D, n).coefficients.shape == (nparticles, M - 1)
                                       for n in ("Delta00", "Delta02", "Delta20", "Delta11"))))


def _contract(Tm, arr, axis):
    """nodal_a = sum_i Tm[a,i] coeff_i along `axis` (object-array safe)."""
    arr = np.moveaxis(arr, axis, -1)
    out = np.empty(arr.shape[:-1] + (Tm.shape[0],), dtype=arr.dtype)
    for idx in np.ndindex(*arr.shape[:-1]):
        for a in range(Tm.shape[0]):
            s = 0.0
            for i in range(Tm.shape[1]):
                s = s + float(Tm[a, i]) * arr[idx + (i,)]
            out[idx + (a,)] = s
    return np.moveaxis(out, -1, axis)


def h_tmunu(h, nparticles, npts, history=False):
    h.patch(EOMM, float=npx.symfloat, np=npx.NP())
    eom = bare(EOMM.EOM)
    parts, ms = [], []
    for k in range(nparticles):
        m0 = h.real(f"msq{k}_0", -10, 10, default=0.3 + k)
        m1 = h.real(f"msq{k}_1", -10, 10, default=0.5)
        dof = [12, 6, 9][k]
        ms.append((m0, m1, dof))
        parts.append(types.SimpleNamespace(
            totalDOFs=dof, msqVacuum=(lambda f, m0=m0, m1=m1: m0 + m1 * np.asarray(f)[0] ** 2)))
    eom.particles = parts
    v = h.real("velocityMid", -0.999, 0.999, default=-0.45)
    phi = h.real("phi", -5, 5, default=0.7)
    D = {}
    for name in ("Delta00", "Delta02", "Delta20", "Delta11"):
        D[name] = types.SimpleNamespace(coefficients=h.reals(name, (nparticles, npts), -1, 1))
    Dn = types.SimpleNamespace(**D)
    fp = FieldPoint(np.array([phi], dtype=object if h.symbolic else float))
    # history: the same EOM object is asked again at another wall velocity (every solveWall does
    # that); the answer depends on the arguments of the call only
    vels = [v, h.real("velocityMid2", -0.999, 0.999, default=0.2), v] if history else [v]
    for index, v in [(i, u) for u in vels for i in range(npts)]:
        g2 = 1 / (1 - v * v)
        T30, T33 = eom.deltaToTmunu(index, fp, v, Dn)
        w30, w33 = 0.0, 0.0
        for i in range(nparticles):
            d00, d02, d20, d11 = (D[n].coefficients[i, index] for n in ("Delta00", "Delta02", "Delta20", "Delta11"))
            dof = ms[i][2]
            w33 = w33 + dof * g2 * (d02 + 2 * v * d11 + v * v * d20)
            w30 = w30 + dof * g2 * (v * (d20 + d02) + (1 + v * v) * d11)
        sc = None if h.symbolic else 40.0 * float(g2) * nparticles
        h.prove_eq(f"T30 = gamma^2 <(pz+vE)(E+v pz)> at point {index}", T30, w30, conc_scale=sc)
        h.prove_eq(f"T33 = gamma^2 <(pz+vE)^2> at point {index}", T33, w33, conc_scale=sc)
        h.observe("T30", T30)
        h.observe("T33", T33)


_DQ = [dict(M=3, N=3, T0=1.0, basisM="Cardinal", basisN="Cardinal", nparticles=1),
       dict(M=4, N=5, T0=0.37, basisM="Cardinal", basisN="Chebyshev", nparticles=1),
       dict(M=3, N=5, T0=25.0, basisM="Chebyshev", basisN="Cardinal", nparticles=2),
       dict(M=3, N=3, T0=1.0, basisM="Chebyshev", basisN="Chebyshev", nparticles=2)]
_DQ.append(dict(M=3, N=3, T0=0.6, basisM="Cardinal", basisN="Cardinal", nparticles=1, rescale=True))
_DQ.append(dict(M=3, N=3, T0=1.0, basisM="Chebyshev", basisN="Chebyshev", nparticles=1, real_truncation=True))
_DQ.append(dict(M=3, N=3, T0=1.0, basisM="Cardinal", basisN="Chebyshev", nparticles=1, real_truncation=True))
_DT = _DQ + [dict(M=3, N=3, T0=1.0, basisM=bm, basisN=bn, nparticles=1, real_truncation=True)
             for bm, bn in (("Chebyshev", "Cardinal"), ("Cardinal", "Cardinal"))] + [dict(M=4, N=7, T0=1.0, basisM=bm, basisN=bn, nparticles=1)
             for bm in ("Cardinal", "Chebyshev") for bn in ("Cardinal", "Chebyshev")] + \
    [dict(M=5, N=5, T0=3.0, basisM="Chebyshev", basisN="Chebyshev", nparticles=2)]

HARNESSES = [
    HarnessDef("getDeltas", h_deltas, _DQ, _DT, max_paths=4, timeout_s=120,
               encodes=[BZ.BoltzmannSolver.getDeltas, PM.Polynomial.integrate, PM.Polynomial.changeBasis,
                        Grid.getCompactificationDerivatives, Grid.decompactify], random_validation=1),
    HarnessDef("deltaToTmunu", h_tmunu, [dict(nparticles=1, npts=1), dict(nparticles=2, npts=2),
                                         dict(nparticles=1, npts=1, history=True)],
               [dict(nparticles=1, npts=1), dict(nparticles=2, npts=2), dict(nparticles=3, npts=2),
                dict(nparticles=2, npts=2, history=True)],
               max_paths=4, timeout_s=60, encodes=[EOMM.EOM.deltaToTmunu], random_validation=3),
]

MANIFEST = {
    "text": "getDeltas: for every deviation (all entries symbolic; QF_LRA) on the enumerated "
            "grids, momentum scales, bases and 1-2 particles, each of the four moments at each "
            "position equals the defining weighted sum written independently from the momentum "
            "maps and Gauss-Chebyshev-Lobatto weights (tolerance 1e-9 of the weight norm). "
            "deltaToTmunu: for all moments, masses, velocity (symbolic; NRA) T30 and T33 equal the "
            "directly boosted momentum integrals gamma^2<(pz+vE)(E+v pz)> and gamma^2<(pz+vE)^2>."
            " deltaToTmunu is also checked on one EOM object across three velocities (history)."
            " With the real truncation-error diagnostic running, the deviation handed to getDeltas is left as it was (all four basis combinations).",
    "note": "mass profiles concrete inside getDeltas; quadrature exactness itself is C16; "
            "truncation/linearisation diagnostics stubbed out.",
}
