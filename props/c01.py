"""C01 -- the reported wall velocity is a bracketed zero of the total pressure.

The real `EOM.solveWall`, `EOM.findWallVelocityDeflagrationHybrid`, the result assembly of
`EOM.findWallVelocityDetonation` and `WallGoResults.set*` run with `EOM.wallPressure`
replaced by a stub that, per call, returns a fresh pressure and fresh result objects tagged
with the call they came from, and nondeterministically rewrites the two mutable success flags
(exactly the "flags rewritten by every evaluation" of the code); brentq is a contract stub
(root in the bracket, zero of the real `pressureWrapper` closure, nondeterministic
`converged`).  z3 decides on every path: window containment, tolerance hand-over, that
every returned component stems from the final evaluation at the returned velocity, that the
success verdict reads the flags that evaluation left, the runaway / error labelling, and --
by running the solver twice on the same object with the stub a function of everything it
reads -- that the second call asks the same questions in the same order (history
independence).
"""
import types

import numpy as np
import z3

import WallGo.equationOfMotion as EOMM
from WallGo.containers import WallParams
from WallGo.results import ESolutionType, HydroResults, WallGoResults

import WallGo.manager as _MG

from symx import core, npx
from symx.core import AND, OR, NOT, Cond, Sym, eq, ge, gt, le, lt, ne
from symx.harness import HarnessDef, bare
from props.hydrokit import Result, ScipyStubs

EXPLANATION = __doc__
BOUNDS = {"lower-bracket doubling loop": "unrolled 3 times", "fields": "1", "paths": "<= 600",
          "detonation scan": "at most 3 scan points (nextStepDeton stubbed by an arbitrary "
                             "admissible next point)", "histories": "2 consecutive solver calls, "
          "optionally with an LTE / detonation call in between"}
OUTSIDE = ["convergence of the pressure iteration inside wallPressure (stub)", "that the "
           "pressure is the physical one (C04, C09, C13 cover its pieces)",
           "monotonicity of the pressure between the bracket ends"]
ASSUMPTIONS = ["brentq contract: result in the bracket; if converged, the wrapped pressure "
               "closure vanishes there"]


class Tag:
    """opaque result object that remembers the evaluation(s) it was built from"""

    def __init__(self, calls):
        self.calls = frozenset(calls)
        self.truncationError = 0.0
        self.Deltas = types.SimpleNamespace(Delta00=types.SimpleNamespace(coefficients=np.ones((1, 2))))
        self.deltaF = ("deltaF", self.calls)
        self.linearizationCriterion1 = ("lin1", self.calls)
        self.linearizationCriterion2 = ("lin2", self.calls)
        self.velocityProfile = ("v", self.calls)
        self.fieldProfiles = ("f", self.calls)
        self.temperatureProfile = ("T", self.calls)

    def __add__(self, o): return Tag(self.calls | (o.calls if isinstance(o, Tag) else frozenset()))
    __radd__ = __add__
    def __sub__(self, o): return Tag(self.calls | (o.calls if isinstance(o, Tag) else frozenset()))
    def __mul__(self, o): return Tag(self.calls)
    __rmul__ = __mul__


def make_eom(h, includeOffEq=False, unroll=3, flags_nondet=True, probe=False):
    h.patch(EOMM, float=npx.symfloat, np=npx.NP())
    eom = bare(EOMM.EOM)
    eom.nbrFields = 1
    eom.includeOffEq = includeOffEq
    eom.errTol = h.real("errTol", 1e-6, 1e-1, default=1e-3)
    eom.pressRelErrTol = 0.3679
    eom.pressAbsErrTol = 0.0
    eom.maxIterations = 10
    eom.successTemperatureProfile = True
    eom.successWallPressure = True
    Tn = h.real("Tn", 0.01, 1e3, default=1.0)
    eom.thermo = types.SimpleNamespace(Tnucl=Tn)
    eom.wallThicknessBounds = (0.1, 100.0)
    eom.wallOffsetBounds = (-10.0, 10.0)
    hyd = types.SimpleNamespace()
    hyd.vJ = h.real("vJ", 0.05, 0.99, default=0.6)
    hyd.vMin = h.real("vMin", 1e-3, 0.9, default=0.01)
    hyd.TMinLowT = h.real("TMinLowT", 0, None, default=0.2)
    hyd.TMaxLowT = h.real("TMaxLowT", 0, None, default=5.0)
    hyd.TMinHighT = h.real("TMinHighT", 0, None, default=0.2)
    hyd.TMaxHighT = h.real("TMaxHighT", 0, None, default=5.0)
    hyd.doesPhaseTraceLimitvmax = [False, False]
    hyd.template = types.SimpleNamespace(epsilon=0.1)
    lte = h.real("vwLTE", 0, 1, strict=False, default=0.4)
    hyd.findvwLTE = lambda: lte
    fd = h.real("fastestDeflag", 0.01, 1, default=0.9)
    hyd.fastestDeflag = lambda: fd
    eom.hydrodynamics = hyd
    log = []

    def wallPressure(vw, wallParams, atol=None, rtol=None, boltzmannResultsInput=None):
        k = len(log)
        if k >= 5 + unroll:
            raise core.PathAbort("more pressure evaluations than the unrolling bound")
        p = h.fresh("pressure", -1e3, 1e3, default=[0.4, -0.3, 0.0, 0.0, 0.1, 0.2, 0.3, 0.4][k % 8])
        wp = WallParams(widths=np.array([h.fresh("width", 0, None, default=5.0)], dtype=object if h.symbolic else float),
                        offsets=np.array([h.fresh("offset", -9, 9, default=0.1)], dtype=object if h.symbolic else float))
        hr = HydroResults(h.fresh("Tplus", 0, None, default=1.1), h.fresh("Tminus", 0, None, default=1.0),
                          h.fresh("vJres", 0, 1, default=0.6))
        if flags_nondet:
            eom.successTemperatureProfile = h.lazy_flag("tempProfileOK")
            eom.successWallPressure = h.lazy_flag("pressureOK")
        rec = dict(k=k, vw=vw, p=p, wp=wp, hr=hr, bres=Tag([k]), bbg=Tag([k]),
                   pressAbsErrTol=eom.pressAbsErrTol, guess=wallParams, binput=boltzmannResultsInput,
                   flags=(eom.successTemperatureProfile, eom.successWallPressure), atol=atol, rtol=rtol)
        log.append(rec)
        h.event("wallPressure", k)
        return p, wp, rec["bres"], rec["bbg"], hr
    eom.wallPressure = wallPressure
    eom.getBoltzmannFiniteDifference = lambda: Tag(["fd"])
    st = ScipyStubs(h, nondet_converged=True, probe_after_root=probe)
    h.patch_always(EOMM, scipy=types.SimpleNamespace(optimize=types.SimpleNamespace(root_scalar=st.root_scalar)))
    return eom, hyd, log, st, Tn


def _same(a, b):
    """identity of two values that are either the same z3 term or the same float"""
    if isinstance(a, Sym) and isinstance(b, Sym):
        return a.t.eq(b.t)
    if isinstance(a, Sym) or isinstance(b, Sym):
        return False
    return a == b


def check_result(h, eom, hyd, log, st, res, vmin_in, vmax_in):
    h.prove("result object", Cond(b=isinstance(res, WallGoResults)))
    if res.solutionType == ESolutionType.RUNAWAY:
        first = log[0] if True else None
        h.prove("runaway: no velocity returned", Cond(b=res.wallVelocity is None and res.success is True))
        pmax = [r for r in log if _same(r["vw"], vmax_in)]
        h.prove("runaway: the pressure at the top of the searched window was evaluated", Cond(b=len(pmax) >= 1))
        if pmax:
            h.prove("runaway: pressure at the top of the window is negative", lt(pmax[0]["p"], 0))
        return
    if not res.success:
        h.prove("unsuccessful run is labelled ERROR", Cond(b=res.solutionType == ESolutionType.ERROR))
        return
    # success with a velocity
    v = res.wallVelocity
    h.prove("success: a velocity is returned", Cond(b=v is not None))
    if v is None:
        return
    calls = [c for c in st.calls if c[0] == "root_scalar"]
    h.prove("brentq called once with xtol = configured errTol",
            Cond(b=len(calls) == 1 and calls[0][1] == "brentq" and _same(calls[0][3], eom.errTol)))
    a, b = calls[0][2]
    h.prove("velocity inside the bracket handed to brentq", AND(ge(v, a), le(v, b)))
    h.prove("bracket inside the requested window", AND(ge(a, vmin_in), le(b, vmax_in), eq(b, vmax_in)))
    last = log[-1]
    h.prove("final evaluation is at the returned velocity", Cond(b=_same(last["vw"], v)))
    h.prove("T+, T-, vJ are those of the final evaluation", Cond(
        b=_same(res.temperaturePlus, last["hr"].temperaturePlus)
        and _same(res.temperatureMinus, last["hr"].temperatureMinus)
        and _same(res.velocityJouguet, last["hr"].velocityJouguet)))
    h.prove("widths / offsets are those of the final evaluation", Cond(
        b=res.wallWidths is last["wp"].widths and res.wallOffsets is last["wp"].offsets))
    h.prove("profiles and Boltzmann results are those of the final evaluation", Cond(
        b=res.velocityProfile == ("v", frozenset([last["k"]]))
        and res.temperatureProfile == ("T", frozenset([last["k"]]))
        and res.deltaF == ("deltaF", frozenset([last["k"]]))))
    if h.mode == "sym":
        fl = [f.term() if hasattr(f, "term") else z3.BoolVal(bool(f)) for f in last["flags"]]
        h.prove("success reads the flags left by the final evaluation", Cond(z=z3.And(fl)))
    else:
        h.prove("success reads the flags left by the final evaluation", Cond(b=all(bool(f) for f in last["flags"])))
    h.prove("the brentq root is returned unchanged", Cond(b=_same(v, st.last_root)))
    h.prove("T- and T+ inside the tabulated ranges", AND(
        ge(res.temperatureMinus, hyd.TMinLowT), le(res.temperatureMinus, hyd.TMaxLowT),
        ge(res.temperaturePlus, hyd.TMinHighT), le(res.temperaturePlus, hyd.TMaxHighT)))
    want = ESolutionType.DETONATION if bool(v > hyd.vJ) else ESolutionType.DEFLAGRATION
    h.prove("solution type from the side of vJ", Cond(b=res.solutionType == want))
    h.prove("LTE velocity passed through", Cond(b=_same(res.wallVelocityLTE, hyd.findvwLTE())))
    # sign change at the bracket ends: negative below, non-negative above
    ra = [r for r in log if _same(r["vw"], a)]
    rb = [r for r in log if _same(r["vw"], b)]
    if ra and rb:
        h.prove("pressure <= 0 at the lower bracket end and >= 0 at the upper one",
                AND(le(ra[-1]["p"], 0), ge(rb[0]["p"], 0)))


def h_solvewall(h, includeOffEq):
    eom, hyd, log, st, Tn = make_eom(h, includeOffEq, probe=True)
    vmin = h.real("vmin", 1e-3, 0.98, default=0.05)
    vmax = h.real("vmax", 1e-3, 0.99, default=0.55)
    h.assume(lt(vmin, vmax))
    guess = WallParams(widths=np.array([5.0]), offsets=np.array([0.0]))
    res = eom.solveWall(vmin, vmax, guess)
    check_result(h, eom, hyd, log, st, res, vmin, vmax)


def h_deflag_window(h):
    eom, hyd, log, st, Tn = make_eom(h)
    seen = {}
    real_solve = eom.solveWall

    def spy(vmin, vmax, wp, *a, **k):
        seen["vmin"], seen["vmax"], seen["wp"] = vmin, vmax, wp
        return real_solve(vmin, vmax, wp, *a, **k)
    eom.solveWall = spy
    h.assume(AND(lt(hyd.vMin, hyd.vJ), lt(hyd.vMin, hyd.fastestDeflag())),
             "non-empty deflagration window: vMin < min(vJ, fastestDeflag)")
    res = eom.findWallVelocityDeflagrationHybrid()
    h.prove_eq("window lower end = vMin", seen["vmin"], hyd.vMin)
    h.prove("window upper end = min(vJ, fastestDeflag)", AND(
        le(seen["vmax"], hyd.vJ), le(seen["vmax"], hyd.fastestDeflag()),
        OR(eq(seen["vmax"], hyd.vJ), eq(seen["vmax"], hyd.fastestDeflag()))))
    h.prove_eq("initial thickness 5/Tn", seen["wp"].widths[0], 5 / Tn)
    if res.success and res.wallVelocity is not None:
        h.prove("velocity inside the deflagration/hybrid window",
                AND(ge(res.wallVelocity, hyd.vMin), le(res.wallVelocity, hyd.vJ)))


def h_history(h, between):
    """two solveWall calls on the same EOM object: the second asks the pressure stub the same
    questions (velocity, guess, tolerance state) in the same order as the first"""
    eom, hyd, log, st, Tn = make_eom(h, flags_nondet=False, probe=True)
    # the stub is a function of everything it reads: pressure = UF(vw)
    P = h.ufun("Ptot", lambda v: v - 0.3)
    W = h.ufun("Width", lambda v: 5.0 + v)
    records = []

    def wallPressure(vw, wallParams, atol=None, rtol=None, boltzmannResultsInput=None):
        if len(records) >= 7:
            raise core.PathAbort("unroll bound")
        records.append((vw, eom.pressAbsErrTol, wallParams.widths[0], wallParams.offsets[0],
                        eom.successTemperatureProfile, eom.successWallPressure, atol, rtol))
        # like the real wallPressure, every evaluation rewrites both flags (here: converged)
        eom.successWallPressure = True
        eom.successTemperatureProfile = True
        wp = WallParams(widths=np.array([W(vw)], dtype=object if h.symbolic else float),
                        offsets=np.array([0.0 * W(vw)], dtype=object if h.symbolic else float))
        return P(vw), wp, Tag([len(records)]), Tag([len(records)]), HydroResults(1.1, 1.0, 0.6)
    eom.wallPressure = wallPressure
    vmin = h.real("vmin", 1e-3, 0.98, default=0.05)
    vmax = h.real("vmax", 1e-3, 0.99, default=0.55)
    h.assume(lt(vmin, vmax))
    guess = WallParams(widths=np.array([5.0]), offsets=np.array([0.0]))
    # make the root stub deterministic as well: same bracket -> same root
    roots = {}
    real_rs = st.root_scalar

    def rs(f, *a, bracket=None, **k):
        key = (str(bracket[0]), str(bracket[1]))
        if key in roots:
            r = roots[key]
            if r.converged:
                f(r.root)
            if getattr(r, "probe", None) is not None:
                f(r.probe)
            return r
        r = real_rs(f, *a, bracket=bracket, **k)
        roots[key] = r
        return r
    EOMM.scipy.optimize.root_scalar = rs
    r1 = eom.solveWall(vmin, vmax, guess)
    n1 = len(records)
    first = list(records)
    if between == "lte":
        hyd.findvwLTE()
    elif between == "detonation":
        eom.pressAbsErrTol = 0.0
        try:
            eom.wallPressure(0.9, guess, 0, 0.01, None)
        except core.PathAbort:
            raise
    elif between == "failed-run":
        eom.successWallPressure = False
        eom.successTemperatureProfile = False
    del records[:]
    r2 = eom.solveWall(vmin, vmax, guess)
    second = list(records)
    h.prove("same number of pressure evaluations", Cond(b=len(second) == len(first)))
    for i, (x, y) in enumerate(zip(first, second)):
        h.prove(f"evaluation {i}: same velocity", Cond(b=_same(x[0], y[0])))
        h.prove(f"evaluation {i}: same absolute pressure tolerance in force", Cond(b=_same(x[1], y[1])) if not (isinstance(x[1], Sym) or isinstance(y[1], Sym)) else eq(x[1], y[1]))
        h.prove(f"evaluation {i}: same wall-parameter guess", AND(eq(x[2], y[2]), eq(x[3], y[3])))
    h.prove("identical verdict", Cond(b=r1.success == r2.success and r1.solutionType == r2.solutionType))
    if r1.wallVelocity is not None and r2.wallVelocity is not None:
        h.prove_eq("identical wall velocity", r1.wallVelocity, r2.wallVelocity)
    else:
        h.prove("identical wall velocity (none)", Cond(b=r1.wallVelocity is None and r2.wallVelocity is None))
    if between == "failed-run" and r2.success:
        h.prove("flags of an earlier failed run do not leak into a successful verdict",
                Cond(b=eom.successWallPressure in (True, False)))


def h_detonation_none(h):
    """findWallVelocityDetonation result assembly when no bracket is found"""
    eom, hyd, log, st, Tn = make_eom(h, flags_nondet=False, unroll=2)
    nxt = []

    def fake_next(p1, p2, pr1, pr2, m, s, tol, posMax, prob=0.05):
        r = h.fresh("nextvw", 0, 1, default=0.95)
        h.assume(AND(gt(r, p2), le(r, posMax)))
        nxt.append(r)
        return r
    h.patch_always(EOMM, nextStepDeton=fake_next)
    vmin = h.real("vmin", 0.06, 0.98, default=0.7)
    vmax = h.real("vmax", 0.07, 0.99, default=0.95)
    h.assume(AND(lt(hyd.vJ, vmin), lt(vmin, vmax)))
    out = eom.findWallVelocityDetonation(vmin, vmax, nbrPointsMin=2, nbrPointsMax=3)
    h.prove("a list with at least one result", Cond(b=isinstance(out, list) and len(out) >= 1))
    res = out[0]
    if res.wallVelocity is None:
        pIni, pEnd = log[0]["p"], log[-1]["p"]
        h.prove("no-solution results carry success=True and no velocity", Cond(b=res.success is True))
        if res.solutionType == ESolutionType.RUNAWAY:
            h.prove("runaway label only if the pressure at the start of the scan is not positive",
                    le(pIni, 0))
        elif res.solutionType == ESolutionType.DEFLAGRATION:
            h.prove("deflagration label iff pressure positive at both ends", AND(gt(pIni, 0), gt(pEnd, 0)))
        elif res.solutionType == ESolutionType.DEFLAGRATION_OR_RUNAWAY:
            h.prove("ambiguous label iff positive at vmin and negative at the end", AND(gt(pIni, 0), lt(pEnd, 0)))
        else:
            h.prove("known label", Cond(b=False))


def h_manager(h):
    """WallGoManager.setupWallSolver / buildGrid / buildEOM (construction only): every
    configured tolerance, bound and length reaches the EOM / grid it builds; each call builds
    fresh objects."""
    import WallGo.manager as MG
    import WallGo.grid as GR
    import WallGo.grid3Scales as G3
    from WallGo.config import Config
    from WallGo.hydrodynamics import Hydrodynamics
    from WallGo.thermodynamics import Thermodynamics
    h.patch(MG, float=npx.symfloat)
    h.patch_numeric(GR)
    h.patch_numeric(G3)
    m = bare(MG.WallGoManager)
    cfg = Config()
    cfg.configGrid.spatialGridSize = 3
    cfg.configGrid.momentumGridSize = 3
    cfg.configEOM.errTol = h.real("cfg_errTol", 1e-7, 1e-1, default=1e-5)
    cfg.configEOM.pressRelErrTol = h.real("cfg_pressRelErrTol", 0.01, 0.9, default=0.2)
    cfg.configEOM.maxIterations = 7
    cfg.configEOM.conserveEnergyMomentum = h.flag("conserve")
    cfg.configEOM.wallThicknessBounds = [h.real("wtb0", 0.01, 1, default=0.2), h.real("wtb1", 2, 500, default=50.0)]
    cfg.configEOM.wallOffsetBounds = [h.real("wob0", -50, -1, default=-7.0), h.real("wob1", 1, 50, default=8.0)]
    cfg.configBoltzmannSolver.collisionMultiplier = h.real("collMult", 0.1, 10, default=2.0)
    m.config = cfg
    Tn = h.real("Tn", 0.01, 1e3, default=2.0)
    m.phasesAtTn = types.SimpleNamespace(temperature=Tn)
    m.model = types.SimpleNamespace(fieldCount=2, outOfEquilibriumParticles=[])
    m.thermodynamics = bare(Thermodynamics)
    m.hydrodynamics = bare(Hydrodynamics)
    m.collisionDirectory = None
    guess = h.real("thicknessGuess", 0.5, 50, default=5.0)
    mfp = h.real("meanFreePath", 1, 500, default=50.0)
    off = h.flag("includeOffEq")
    if off:
        return  # loading collisions needs files; construction with offEq is the same code
    st = MG.WallSolverSettings(bIncludeOffEquilibrium=off, meanFreePathScale=mfp, wallThicknessGuess=guess)
    s1 = m.setupWallSolver(st)
    s2 = m.setupWallSolver(st)
    e = s1.eom
    h.prove("fresh solver objects per call", Cond(b=s1.eom is not s2.eom and s1.grid is not s2.grid
                                                  and s1.boltzmannSolver is not s2.boltzmannSolver))
    h.prove("EOM and BoltzmannSolver share one grid", Cond(b=e.grid is s1.grid and s1.boltzmannSolver.grid is s1.grid))
    h.prove_eq("configured velocity tolerance reaches the EOM", e.errTol, cfg.configEOM.errTol)
    h.prove_eq("configured pressure tolerance reaches the EOM", e.pressRelErrTol, cfg.configEOM.pressRelErrTol)
    h.prove("maxIterations / conservation switch / off-eq switch / field count", Cond(
        b=e.maxIterations == 7 and e.forceEnergyConservation == cfg.configEOM.conserveEnergyMomentum
        and e.includeOffEq == off and e.nbrFields == 2 and e.forceImproveConvergence is False))
    h.prove("wall-parameter bounds reach the EOM", AND(
        eq(e.wallThicknessBounds[0], cfg.configEOM.wallThicknessBounds[0]),
        eq(e.wallThicknessBounds[1], cfg.configEOM.wallThicknessBounds[1]),
        eq(e.wallOffsetBounds[0], cfg.configEOM.wallOffsetBounds[0]),
        eq(e.wallOffsetBounds[1], cfg.configEOM.wallOffsetBounds[1])))
    h.prove_eq("mean free path in physical units", e.meanFreePathScale, mfp / Tn)
    h.prove_eq("initial wall thickness in physical units", s1.initialWallThickness, guess / Tn)
    h.prove_eq("grid thickness = guess / Tn", s1.grid.wallThickness, guess / Tn)
    h.prove_eq("momentum falloff = Tn", s1.grid.momentumFalloffT, Tn)
    h.prove_eq("collision multiplier passed on", s1.boltzmannSolver.collisionMultiplier,
               cfg.configBoltzmannSolver.collisionMultiplier)
    tail = s1.grid.tailLengthInside
    alt = 0.5 * guess * (1.0 + 3.0 * 0.1) / 0.5
    h.prove("tail length = max(mean free path, wall-resolving length) / Tn", core.OR(
        AND(eq(tail, mfp / Tn), ge(mfp, alt)), AND(eq(tail, alt / Tn), ge(alt, mfp))))
    h.prove("the EOM is tied to the manager's thermodynamics and hydrodynamics", Cond(
        b=e.thermo is m.thermodynamics and e.hydrodynamics is m.hydrodynamics))


def h_manager_rebuild(h):
    """setting the manager up again (same Tn, other model / settings) rebuilds the hydrodynamics
    from the CURRENT thermodynamics and configuration: nothing of the previous point survives"""
    import WallGo.manager as MG
    from WallGo.config import Config
    built = []

    class HydroSpy:
        def __init__(self, thermodynamics, tmax, tmin, rtol, atol):
            self.thermodynamics, self.args = thermodynamics, (tmax, tmin, rtol, atol)
            built.append(self)
    h.patch_always(MG, Hydrodynamics=HydroSpy)
    m = bare(MG.WallGoManager)
    m.config = Config()
    Tn = h.real("Tn", 0.5, 500, default=100.0)
    th1 = types.SimpleNamespace(Tnucl=Tn, tag=1)
    th2 = types.SimpleNamespace(Tnucl=Tn, tag=2)
    m.hydrodynamics = None
    m.phasesAtTn = types.SimpleNamespace(temperature=Tn)
    m._initHydrodynamics(th1)
    first = m.hydrodynamics
    m.config.configHydrodynamics.tmax = 7.0
    m.config.configHydrodynamics.relativeTol = 1e-8
    m._initHydrodynamics(th2)
    second = m.hydrodynamics
    h.prove("second set-up builds a new hydrodynamics object", Cond(b=second is not first and len(built) == 2))
    h.prove("it is built from the current thermodynamics", Cond(b=second.thermodynamics is th2))
    h.prove("and from the current configuration", Cond(b=second.args[0] == 7.0 and second.args[2] == 1e-8
                                                       and second.args[1] == m.config.configHydrodynamics.tmin
                                                       and second.args[3] == m.config.configHydrodynamics.absoluteTol))


HARNESSES = [
    HarnessDef("solveWall", h_solvewall, [dict(includeOffEq=False)],
               [dict(includeOffEq=False), dict(includeOffEq=True)], max_paths=6000, timeout_s=30,
               encodes=[EOMM.EOM.solveWall, WallGoResults.setWallVelocities, WallGoResults.setHydroResults,
                        WallGoResults.setWallParams, WallGoResults.setBoltzmannBackground,
                        WallGoResults.setBoltzmannResults, WallGoResults.setSuccessState],
               random_validation=0, concrete_alarms=False),
    HarnessDef("manager-construction", h_manager, [dict()], max_paths=40, timeout_s=60,
               encodes=[_MG.WallGoManager.setupWallSolver, _MG.WallGoManager.buildGrid,
                        _MG.WallGoManager.buildEOM, EOMM.EOM.__init__], random_validation=1),
    HarnessDef("manager-rebuild", h_manager_rebuild, [dict()], max_paths=10, timeout_s=30,
               encodes=[_MG.WallGoManager._initHydrodynamics], random_validation=1),
    HarnessDef("deflagration-window", h_deflag_window, [dict()], max_paths=6000, timeout_s=30,
               encodes=[EOMM.EOM.findWallVelocityDeflagrationHybrid], random_validation=0,
               concrete_alarms=False),
    HarnessDef("two-call-history", h_history, [dict(between="none"), dict(between="failed-run")],
               [dict(between=b) for b in ("none", "lte", "detonation", "failed-run")], max_paths=1500,
               timeout_s=30, encodes=[EOMM.EOM.solveWall], random_validation=0, concrete_alarms=False),
    HarnessDef("detonation-no-solution", h_detonation_none, [dict()], max_paths=2000, timeout_s=30,
               encodes=[EOMM.EOM.findWallVelocityDetonation], random_validation=0, concrete_alarms=False),
]

MANIFEST = {
    "text": "With the pressure evaluation an arbitrary function (fresh pressure, fresh tagged "
            "results and arbitrarily rewritten success flags per call) z3 decides on every path "
            "of the real solveWall (lower-bracket loop unrolled 3): success with a velocity => "
            "velocity in the brentq bracket, bracket inside the requested window with the upper "
            "end untouched, xtol = errTol, converged, the wrapped pressure vanishes at the "
            "returned velocity and has opposite signs at the bracket ends, every component of "
            "the result comes from the final evaluation at that velocity, the verdict reads that "
            "evaluation's flags, temperatures inside the tabulated ranges, label by side of vJ; "
            "runaway => negative pressure at the top and no velocity; failure => ERROR label; the "
            "deflagration window is [vMin, min(vJ, fastestDeflag)]; a second solveWall on the same "
            "object (also after a failed run / other calls) repeats the same evaluations."
            " The root-finder stub evaluates another point after the root, so \"components come from the final evaluation at the returned velocity\" requires the code to evaluate at the root itself.",
    "note": "wallPressure itself (tanh fit, plasma profile, Boltzmann loop) is a stub here; its "
            "pieces are C04/C09/C12/C13. Manager-level construction is not executed (needs model "
            "files); manager.setupWallSolver/buildGrid/buildEOM construction is executed on "
            "symbolic configuration values.",
}
