"""C04 -- the plasma profile inside the wall conserves energy-momentum pointwise.

`EOM.findPlasmaProfilePoint`, `temperatureProfileEqLHS`, `plasmaVelocity`, `deltaToTmunu`,
`findPlasmaProfile` run with the effective potential V(phi,T) and dV/dT as uninterpreted
functions, symbolic boundary constants, field gradients and moments.  scipy's bounded
minimiser and bracketing root finder are contract stubs (fresh minimiser position; root = an
exact zero of the real closure).  z3 decides T^30 and T^33 conservation for the returned
(T, v), |v|<1, the far-field limits with the sign conventions of `findHydroBoundaries`, and
the bookkeeping of `successTemperatureProfile`.
"""
import types

import numpy as np
import z3

import WallGo.equationOfMotion as EOMM
from WallGo.containers import BoltzmannDeltas
from WallGo.fields import FieldPoint, Fields
from WallGo.polynomial import Polynomial

from symx import core, npx
from symx.core import AND, OR, NOT, Cond, Sym, eq, ge, gt, le, lt, ne
from symx.harness import HarnessDef, bare
from props.hydrokit import Result, ScipyStubs
from props.c13 import h_tmunu

EXPLANATION = __doc__
BOUNDS = {"fields": "1 or 2 scalar fields", "particles": "0, 1 or 2 out-of-equilibrium particles",
          "bracketing loop": "unrolled 3 times (further widening steps are cut and reported)",
          "grid points per profile": "2 (findPlasmaProfile bookkeeping)"}
OUTSIDE = ["convergence of the bounded minimiser / brentq", "that the bracketed root is the "
           "physically continuous one between neighbouring grid points",
           "bracket widening beyond 3 steps"]
ASSUMPTIONS = ["V and dV/dT are arbitrary functions with enthalpy -T dV/dT > 0 where consulted",
               "T30 - T30_out != 0 (division in plasmaVelocity)"]


class LoopBound(core.PathAbort):
    pass


def make_eom(h, nfields, nparticles, unroll=3):
    h.patch(EOMM, float=npx.symfloat, np=npx.NP())
    eom = bare(EOMM.EOM)
    names_v = [f"a{i}" for i in range(nfields)] + ["T"]

    def mk(name, default):
        # ufun needs a fixed arity: build default with nfields+1 parameters
        src = f"lambda {', '.join(names_v)}: _d({', '.join(names_v)})"
        return h.ufun(name, eval(src, {"_d": default}))
    V = mk("V", lambda *a: -0.3 * a[-1] ** 4 + 0.1 * sum(x * x for x in a[:-1]) * a[-1] ** 2)
    dVdT = mk("dVdT", lambda *a: -1.2 * a[-1] ** 3 + 0.2 * sum(x * x for x in a[:-1]) * a[-1])

    class Pot:
        def evaluate(self, fields, T):
            return V(*[core.unbox(np.asarray(fields)[i]) for i in range(nfields)], core.unbox(np.asarray(T)))

        def derivT(self, fields, T):
            T = core.unbox(np.asarray(T))
            v = dVdT(*[core.unbox(np.asarray(fields)[i]) for i in range(nfields)], T)
            h.assume(AND(gt(T, 0), lt(v, 0)), "enthalpy -T dV/dT > 0 and T > 0 wherever consulted")
            return v

    eom.thermo = types.SimpleNamespace(effectivePotential=Pot())
    Tn = h.real("Tn", 0.01, 1e3, default=1.0)
    eom.hydrodynamics = types.SimpleNamespace(Tnucl=Tn)
    eom.errTol = 1e-3
    parts = []
    for k in range(nparticles):
        m0 = h.real(f"msq{k}_0", -10, 10, default=0.3)
        m1 = h.real(f"msq{k}_1", -10, 10, default=0.5)
        dof = [12, 6, 9][k]
        parts.append(types.SimpleNamespace(
            totalDOFs=dof, msqVacuum=(lambda f, m0=m0, m1=m1: m0 + m1 * np.asarray(f)[0] ** 2)))
    eom.particles = parts
    st = ScipyStubs(h)
    h.patch_always(EOMM, scipy=types.SimpleNamespace(optimize=types.SimpleNamespace(
        minimize_scalar=st.minimize_scalar, root_scalar=st.root_scalar)))
    # bound the bracket-widening loop
    real_lhs = eom.temperatureProfileEqLHS
    counter = {"n": 0}

    def counted(*a, **k):
        counter["n"] += 1
        if counter["n"] > 4 + unroll:
            raise LoopBound("bracket widening loop unrolled more than the bound")
        return real_lhs(*a, **k)
    eom.temperatureProfileEqLHS = counted
    eom._lhs_counter = counter
    eom._real_lhs = real_lhs
    return eom, V, dVdT, Tn, st


def deltas(h, npart, npts):
    """BoltzmannDeltas with symbolic coefficients [particle, point]"""
    grid = types.SimpleNamespace()
    out = {}
    for name in ("Delta00", "Delta02", "Delta20", "Delta11"):
        c = h.reals(name, (npart, npts), -1, 1) if npart else np.zeros((0, npts))
        out[name] = types.SimpleNamespace(coefficients=c)
    return types.SimpleNamespace(**out)


def gsq(v):
    return 1 / (1 - v * v)


def h_point(h, nfields, nparticles, branch):
    eom, V, dVdT, Tn, st = make_eom(h, nfields, nparticles)
    c1 = h.real("c1", -100, 100, default=-0.6)
    c2 = h.real("c2", -100, 100, default=0.45)
    vmid = h.real("vmid", -1, 1, default=-0.4)
    phi = h.reals("phi", (nfields,), -10, 10)
    dphi = h.reals("dphi", (nfields,), -10, 10)
    Tp = h.real("Tplus", 0.01, 1e3, default=1.05)
    Tm = h.real("Tminus", 0.01, 1e3, default=1.0)
    if branch == "deton":
        h.assume(eq(Tp, Tn), "detonation: T+ = Tn")
    else:
        h.assume(OR(gt(Tp - Tn, 1e-6 * Tn), lt(Tp - Tn, -1e-6 * Tn)), "deflagration: |T+ - Tn| >= 1e-6 Tn")
    D = deltas(h, nparticles, 1)
    fp, dfp = FieldPoint(phi), FieldPoint(dphi)
    T30o, T33o = eom.deltaToTmunu(0, fp, vmid, D)
    h.assume(ne(c1 - T30o, 0))
    T, v = eom.findPlasmaProfilePoint(0, c1, c2, vmid, fp, dfp, D, Tp, Tm)
    T, v = core.unbox(np.asarray(T)), core.unbox(np.asarray(v))
    if isinstance(T, (int, float)) and T == 0 and not isinstance(T, Sym):
        h.event("bail-out (0,0) after more than 100 widening steps")
        return
    h.observe("T", T)
    h.observe("v", v)
    lhs = eom._real_lhs(fp, dfp, T, c1 - T30o, c2 - T33o)
    w = -T * dVdT(*phi, T)
    kin = 0.5 * sum(d * d for d in dphi)
    veff = V(*phi, T)
    sc = None
    if not h.symbolic:
        sc = abs(w) + abs(c1) + abs(c2) + abs(veff) + abs(kin)
    # T30 conservation holds on both exits (v is chosen to satisfy it)
    h.prove_eq("T30: w gamma^2 v + T30_out = c1", w * gsq(v) * v + T30o, c1, conc_scale=sc, conc_rtol=1e-6)
    h.prove("|v| < 1", AND(lt(v, 1), gt(v, -1)))
    root_exit = any(c[0] == "root_scalar" for c in st.calls)
    if root_exit:
        h.prove_eq("T33: kinetic - V + w gamma^2 v^2 + T33_out = c2",
                   kin - veff + w * gsq(v) * v * v + T33o, c2, conc_scale=sc, conc_rtol=1e-6)
        h.prove("returned T > 0", gt(T, 0))
        # branch selection: the deflagration/hybrid root is sought above the minimum of the
        # conservation function, the detonation root below it
        amin = [Sym(t) if t is not None else h.values[n] for n, t, lo, hi in h.inputs if n.startswith("argmin#")][0]
        if branch == "deton":
            h.prove("detonation branch: root on the low-temperature side of the minimum", le(T, amin))
        else:
            h.prove("deflagration/hybrid branch: root on the high-temperature side of the minimum", ge(T, amin))
    else:
        # no-root exit: the minimiser position is returned although T33 is not matched
        h.prove("minimiser exit only when LHS(min) >= 0", ge(lhs, 0))
        h.prove("reported success implies T33 conservation (minimiser exit)",
                OR(le(T, 0), eq(kin - veff + w * gsq(v) * v * v + T33o, c2)),
                conc=(lambda: T <= 0 or abs(kin - veff + w * gsq(v) * v * v + T33o - c2) <= 1e-6 * sc)
                if not h.symbolic else None)


def h_farfield(h, side, branch):
    """phi at the phase minimum, phi'=0, no moments, (c1,c2) as findHydroBoundaries builds
    them: T_+ (T_-) is a zero of the LHS and the plasma velocity there is -v_+ (-v_-)."""
    eom, V, dVdT, Tn, st = make_eom(h, 1, 0)
    vp = h.real("vp", 0, 1, default=0.3)
    vm = h.real("vm", 0, 1, default=0.5)
    Tp = h.real("Tplus", 0.01, 1e3, default=1.05)
    Tm = h.real("Tminus", 0.01, 1e3, default=1.0)
    vevH = h.real("vevHigh", -10, 10, default=0.0)
    vevL = h.real("vevLow", -10, 10, default=1.0)
    # thermodynamics of the phases from the same potential: p = -V(min), w = -T dV/dT(min)
    pH, wH = -V(vevH, Tp), -Tp * eom.thermo.effectivePotential.derivT(FieldPoint(np.array([vevH], dtype=object if h.symbolic else float)), Tp)
    pL, wL = -V(vevL, Tm), -Tm * eom.thermo.effectivePotential.derivT(FieldPoint(np.array([vevL], dtype=object if h.symbolic else float)), Tm)
    c1 = -wH * gsq(vp) * vp
    c2 = pH + wH * gsq(vp) * vp * vp
    if side == "behind":
        h.assume(AND(eq(wH * gsq(vp) * vp, wL * gsq(vm) * vm),
                     eq(wH * gsq(vp) * vp * vp + pH, wL * gsq(vm) * vm * vm + pL)),
                 "the matching conserves both fluxes (C02)") if h.symbolic else None
    vev, T, vref = (vevH, Tp, vp) if side == "front" else (vevL, Tm, vm)
    if side == "behind" and not h.symbolic:
        return  # concrete defaults do not satisfy the junction conditions
    fp = FieldPoint(np.array([vev], dtype=object if h.symbolic else float))
    zero = FieldPoint(np.array([0.0 * vev], dtype=object if h.symbolic else float))
    lhs = eom._real_lhs(fp, zero, T, c1, c2)
    v = eom.plasmaVelocity(fp, T, c1)
    h.prove_eq(f"far field {side}: LHS(T) = 0", lhs, 0.0, conc_scale=None if h.symbolic else abs(c2) + abs(wH))
    h.prove_eq(f"far field {side}: plasma velocity = -v", v, -vref)
    h.observe("v", v)


def h_profile(h):
    """findPlasmaProfile: per-point results are stored in order; the success flag is cleared
    iff some point came back with T <= 0, in which case the previous point is copied."""
    eom, V, dVdT, Tn, st = make_eom(h, 1, 0)
    npts = 2
    eom.grid = types.SimpleNamespace(xiValues=np.zeros(npts))
    outs = []

    def fake_point(index, c1, c2, vmid, f, df, D, Tp, Tm):
        if h.flag(f"point{index}_fails"):
            r = (0, 0)
        else:
            r = (h.fresh("Tpt", 0, None, default=1.0 + 0.1 * index), h.fresh("vpt", -1, 1, default=-0.3))
        outs.append((index, np.asarray(f).copy(), np.asarray(df).copy(), r))
        return r
    eom.findPlasmaProfilePoint = fake_point
    phi = h.reals("phi", (npts, 1), -10, 10)
    dphi = h.reals("dphi", (npts, 1), -10, 10)
    res = eom.findPlasmaProfile(-0.5, 0.4, -0.4, Fields.castFromNumpy(phi), Fields.castFromNumpy(dphi),
                                None, 1.05, 1.0)
    Tprof, vprof = res[0], res[1]
    any_fail = any(isinstance(r[0], int) and r[0] == 0 for _, _, _, r in outs)
    h.prove("success flag cleared iff a point failed", Cond(b=eom.successTemperatureProfile == (not any_fail)))
    h.prove("points visited in order with their own field values", Cond(b=[o[0] for o in outs] == list(range(npts))))
    for i, (idx, f, df, r) in enumerate(outs):
        h.prove_eq(f"point {i} gets phi[{i}]", f[0], phi[i, 0])
        h.prove_eq(f"point {i} gets dphi[{i}]", df[0], dphi[i, 0])
        if not (isinstance(r[0], int) and r[0] == 0):
            h.prove_eq(f"T[{i}] stored", Tprof[i], r[0])
            h.prove_eq(f"v[{i}] stored", vprof[i], r[1])
        elif i > 0:
            h.prove_eq(f"failed point {i} copies previous T", Tprof[i], Tprof[i - 1])


_PQ = [dict(nfields=1, nparticles=0, branch="deflag"), dict(nfields=1, nparticles=0, branch="deton"),
       dict(nfields=2, nparticles=1, branch="deflag")]
_PT = _PQ + [dict(nfields=2, nparticles=2, branch="deton"), dict(nfields=1, nparticles=1, branch="deton")]

HARNESSES = [
    HarnessDef("plasma-profile-point", h_point, _PQ, _PT, max_paths=200, timeout_s=60,
               encodes=[EOMM.EOM.findPlasmaProfilePoint, EOMM.EOM.temperatureProfileEqLHS,
                        EOMM.EOM.plasmaVelocity, EOMM.EOM.deltaToTmunu],
               random_validation=0, concrete_alarms=False),
    HarnessDef("far-field", h_farfield,
               [dict(side="front", branch="any"), dict(side="behind", branch="any")], max_paths=50,
               timeout_s=60, encodes=[EOMM.EOM.temperatureProfileEqLHS, EOMM.EOM.plasmaVelocity],
               random_validation=1, concrete_alarms=False),
    HarnessDef("profile-bookkeeping", h_profile, [dict()], max_paths=50, timeout_s=30,
               encodes=[EOMM.EOM.findPlasmaProfile], random_validation=1, concrete_alarms=False),
    # the out-of-equilibrium part entering s1 = c1 - T30_out, s2 = c2 - T33_out is the boosted
    # moment integral for the velocity of THIS call, also when the same EOM object was used at
    # another wall velocity before (the claims above take T30_out/T33_out from the code)
    HarnessDef("moments-boost-history", h_tmunu, [dict(nparticles=1, npts=1, history=True)],
               [dict(nparticles=2, npts=2, history=True)], max_paths=4, timeout_s=60,
               encodes=[EOMM.EOM.deltaToTmunu], random_validation=3),
]

MANIFEST = {
    "text": "For arbitrary potentials (V, dV/dT uninterpreted, enthalpy>0), boundary constants, "
            "field values/gradients (1-2 fields) and moments (0-2 particles), on every path of the "
            "real findPlasmaProfilePoint (bracketing loop unrolled 3) z3 proves: the returned "
            "(T,v) reproduce c1 (always) and c2 (root exit), |v|<1, T>0; with (c1,c2) built as "
            "findHydroBoundaries does, (T+,-v+) and (T-,-v-) are zeros of the conservation "
            "equation at the phase minima; findPlasmaProfile stores per-point results in order and "
            "clears its success flag iff a point failed."
            " deltaToTmunu, on which s1 and s2 rest, returns the boosted moment integrals for the velocity of the current call also when the same EOM object was used at other velocities before.",
    "note": "scipy minimiser/root finder are contract stubs; the no-root exit (minimum of the "
            "residual returned with the success flag left set) is a recorded known finding; "
            "bracket widening beyond 3 steps is cut.",
}
