"""C09 -- in a uniform plasma the wall pressure equals the free-energy difference (pieces).

`EOM.wallProfile` runs on symbolic position, vevs, widths and offsets: the returned gradient
is compared with the derivative of the returned profile (term differentiation; tanh/cosh as
uninterpreted functions with cosh^2 (1 - tanh^2) = 1).  The pressure assembly of
`EOM._intermediatePressureResults` (minimiser stubbed to return its start point, profiles
supplied) and `EOM.action` run on a real three-scale grid with the potential gradient,
potential values and Delta00 symbolic: the pressure must equal
   - sum_j (pi/M) sqrt(1-chi_j^2) (dz/dchi)_j  sum_fields (dV/dphi + dV_out)_j (dphi/dz)_j
with the Jacobian of the *current* grid scales (checked after `_updateGrid` against a freshly
built grid), and the out-of-equilibrium part 1/2 sum dof dm^2/dphi Delta00.
"""
import math
import types

import numpy as np
import z3

import WallGo.equationOfMotion as EOMM
import WallGo.polynomial as PM
import WallGo.grid as GR
import WallGo.grid3Scales as G3
from WallGo.containers import WallParams
from WallGo.fields import Fields
from WallGo.grid3Scales import Grid3Scales

from symx import axioms, core, diff, npx
from symx.core import AND, Cond, Sym, close, eq, gt, lt
from symx.harness import HarnessDef, bare

EXPLANATION = __doc__
BOUNDS = {"wallProfile": "1-2 fields, scalar z and z of shape (2,), everything symbolic",
          "pressure / action": "M in {3,4} (quick), up to 8 (thorough); 1-2 fields; 0-1 off-eq "
                               "particles; potential gradient, potential values and Delta00 symbolic, wall shape concrete"}
OUTSIDE = ["the identity 'pressure = Delta V for every wall shape' itself: it is the statement that "
           "a Gauss-Lobatto quadrature of a non-polynomial total derivative converges, which is "
           "numerical", "Nelder-Mead (stub returning its start point)"]
ASSUMPTIONS = ["tanh, cosh uninterpreted with cosh^2(1-tanh^2)=1 and their derivative rules"]
TOL = 1e-9


def h_profile(h, nf, zshape):
    h.patch(EOMM, float=npx.symfloat, np=npx.NP())
    eom = bare(EOMM.EOM)
    lo = h.reals("vevLow", (nf,), -10, 10)
    hi = h.reals("vevHigh", (nf,), -10, 10)
    L = h.reals("width", (nf,), 0.05, 50)
    off = h.reals("offset", (nf,), -3, 3)
    wp = WallParams(widths=L, offsets=off)
    vl, vh = Fields.castFromNumpy(lo[None, :]), Fields.castFromNumpy(hi[None, :])
    if zshape == "scalar":
        z = h.real("z", -30, 30, default=0.4)
        zs = [z]
        f, d = eom.wallProfile(z, vl, vh, wp)
        f, d = np.asarray(f), np.asarray(d)
        h.prove("shapes", Cond(b=f.shape == (1, nf) and d.shape == (1, nf)))
    else:
        zs = [h.real("z0", -30, 30, default=-0.7), h.real("z1", -30, 30, default=1.3)]
        z = np.array(zs, dtype=object if h.symbolic else float)
        f, d = eom.wallProfile(z, vl, vh, wp)
        f, d = np.asarray(f), np.asarray(d)
        h.prove("shapes", Cond(b=f.shape == (2, nf) and d.shape == (2, nf)))
    for i, zi in enumerate(zs):
        for a in range(nf):
            if h.mode == "sym":
                dd = diff.diff(f[i, a], zi)
                h.prove(f"gradient is the z-derivative of the profile (point {i}, field {a})", eq(d[i, a], dd))
                # each field profile depends only on its own width/offset/vevs
                for b in range(nf):
                    if b != a:
                        h.prove(f"field {a} does not depend on the parameters of field {b}", Cond(
                            b=not any(diff.depends(core.toz3(f[i, a]), core.toz3(v)) for v in (L[b], off[b], lo[b], hi[b]))))
            elif h.mode == "conc":
                hh = 1e-6
                wpc = wp

                def prof(zz):
                    return float(np.asarray(eom.wallProfile(zz, vl, vh, wpc)[0])[0, a])
                fd = (prof(zi + hh) - prof(zi - hh)) / (2 * hh)
                h.prove(f"gradient is the z-derivative of the profile (point {i}, field {a})", None,
                        conc=lambda fd=fd, i=i, a=a: abs(fd - d[i, a]) <= 1e-6 * (abs(d[i, a]) + abs(hi[a] - lo[a]) / L[a]))
            h.observe("phi", f[i, a])
            h.observe("dphi", d[i, a])


def make_eom(h, M, nf, nparticles, includeOffEq):
    h.patch(EOMM, float=npx.symfloat, np=npx.NP())
    h.patch_numeric(PM)
    h.patch_numeric(GR)
    h.patch_numeric(G3)
    eom = bare(EOMM.EOM)
    grid = Grid3Scales(M, 3, 8.0, 8.0, 2.0, 1.0, 0.5, 0.1)
    eom.grid = grid
    eom.nbrFields = nf
    eom.includeOffEq = includeOffEq
    eom.meanFreePathScale = 3.0
    eom.wallThicknessBounds = (0.1, 100.0)
    eom.wallOffsetBounds = (-10.0, 10.0)
    eom.thermo = types.SimpleNamespace(Tnucl=2.0)
    n = M - 1
    dV = h.reals("dVdphi", (n, nf), -5, 5)
    Vv = h.reals("V", (n,), -5, 5)
    Vl, Vh = h.real("Vlow", -5, 5, default=-1.0), h.real("Vhigh", -5, 5, default=-0.5)
    calls = {"n": 0}

    class Pot:
        def derivField(self, fields, T):
            return dV

        def evaluate(self, fields, T):
            fields = np.asarray(fields)
            if fields.shape[0] == n:
                return Vv
            calls["n"] += 1
            return np.array([Vl if calls["n"] % 2 == 1 else Vh], dtype=object if h.symbolic else float)
    eom.thermo.effectivePotential = Pot()
    parts, msqd = [], []
    for k in range(nparticles):
        md = np.array([[0.3 + 0.1 * j + 0.05 * a for a in range(nf)] for j in range(n)])
        mv = np.array([0.2 + 0.07 * j for j in range(n)])
        msqd.append((md, mv))
        parts.append(types.SimpleNamespace(totalDOFs=[12, 6][k], msqDerivative=(lambda f, md=md: md),
                                           msqVacuum=(lambda f, mv=mv: mv)))
    eom.particles = parts
    D00 = h.reals("Delta00", (max(nparticles, 1), n), -1, 1)
    deltas = types.SimpleNamespace(Delta00=types.SimpleNamespace(coefficients=D00))
    class BR:
        """BoltzmannResults stand-in; arithmetic is only used with multiplier = 1"""

        def __init__(self, d):
            self.Deltas = d

        def __rmul__(self, k):
            return BR(self.Deltas) if k == 1.0 else BR(None)

        __mul__ = __rmul__

        def __add__(self, o):
            return self if self.Deltas is not None else o

        __radd__ = __add__
    bres = BR(deltas)
    eom.boltzmannSolver = types.SimpleNamespace(setBackground=lambda b: None, getDeltas=lambda: bres)

    eom._minimize_calls = []

    def fake_minimize(fun, x0, args=(), method=None, bounds=None, **kw):
        eom._minimize_calls.append(dict(x0=np.asarray(x0), bounds=bounds, method=method))
        # the minimiser moves the wall: every parameter changes (stays inside the bounds)
        x = np.asarray(x0) * 1.25 + 0.15
        return types.SimpleNamespace(x=x, success=True, fun=None)
    h.patch_always(EOMM, scipy=types.SimpleNamespace(optimize=types.SimpleNamespace(
        minimize=fake_minimize, Bounds=lambda lb, ub: (lb, ub))))
    return eom, grid, dV, Vv, (Vl, Vh), msqd, D00, bres


def _wall(nf):
    widths = np.array([2.0, 3.1][:nf])
    offsets = np.array([0.0, 0.4][:nf])
    lo = np.array([[1.0, 0.0][:nf]])
    hi = np.array([[0.0, 0.8][:nf]])
    return WallParams(widths=widths.copy(), offsets=offsets.copy()), Fields.castFromNumpy(lo), Fields.castFromNumpy(hi)


def h_pressure(h, M, nf, nparticles, includeOffEq, regrid):
    eom, grid, dV, Vv, Vends, msqd, D00, bres = make_eom(h, M, nf, nparticles, includeOffEq)
    wp, vl, vh = _wall(nf)
    if regrid:
        eom._updateGrid(WallParams(widths=np.array([1.3, 2.2][:nf]), offsets=np.array([0.0, -0.3][:nf])), -0.45)
    n = M - 1
    Tprof = np.linspace(1.0, 1.1, n)
    vprof = np.linspace(-0.5, -0.4, n)
    p, wp2, b2, bg = eom._intermediatePressureResults(wp, vl, vh, -0.6, 0.4, -0.45, bres, 1.1, 1.0, Tprof, vprof, 1.0)
    # ---- oracle, with a grid built from scratch with the scales now in force
    fresh = Grid3Scales(M, 3, float(grid.tailLengthInside), float(grid.tailLengthOutside),
                        float(grid.wallThickness), 1.0, 0.5, 0.1, float(grid.wallCenter))
    chi = -np.cos(np.arange(1, M) * np.pi / M)
    dzdchi = np.asarray(fresh.getCompactificationDerivatives()[0], dtype=float)
    z = np.asarray(fresh.xiValues, dtype=float)
    want = 0.0
    wfin = np.asarray(wp2.widths, dtype=float)
    ofin = np.asarray(wp2.offsets, dtype=float)
    for j in range(n):
        s = 0.0
        for a in range(nf):
            # gradient of the wall that is RETURNED (after the minimisation step)
            zl = z[j] / wfin[a] + ofin[a]
            dphi = 0.5 * (float(vh[0, a]) - float(vl[0, a])) / (wfin[a] * math.cosh(zl) ** 2)
            g = dV[j, a]
            for k in range(nparticles):
                g = g + [12, 6][k] * float(msqd[k][0][j, a]) * D00[k, j] / 2
            s = s + g * float(dphi)
        want = want - (math.pi / M) * math.sqrt(1 - chi[j] ** 2) * float(dzdchi[j]) * s
    h.prove_close("pressure = - int dz (dV/dphi + dV_out) . dphi/dz with the current Jacobian", p, want,
                  rtol=0, atol=TOL * 1e3)
    lb, ub = eom._minimize_calls[0]["bounds"]
    Tn = eom.thermo.Tnucl
    h.prove("minimiser bounds: widths in [lo, hi]/Tn, free offsets in their bounds, Nelder-Mead", Cond(
        b=np.allclose(np.asarray(lb, dtype=float), [0.1 / Tn] * nf + [-10.0] * (nf - 1))
        and np.allclose(np.asarray(ub, dtype=float), [100.0 / Tn] * nf + [10.0] * (nf - 1))
        and eom._minimize_calls[0]["method"] == "Nelder-Mead"))
    h.prove("first offset pinned to zero; returned wall = the minimiser's answer", Cond(
        b=float(wp2.offsets[0]) == 0.0 and np.allclose(wfin, np.asarray(wp.widths) * 1.25 + 0.15)
        and np.allclose(ofin[1:], np.asarray(wp.offsets)[1:] * 1.25 + 0.15)))
    h.observe("pressure", p)


def h_action(h, M, nf, nparticles):
    eom, grid, dV, Vv, (Vl, Vh), msqd, D00, bres = make_eom(h, M, nf, nparticles, False)
    wp, vl, vh = _wall(nf)
    n = M - 1
    Tprof = np.linspace(1.0, 1.1, n)
    S = eom.action(wp, vl, vh, Tprof, bres.Deltas.Delta00)
    chi = -np.cos(np.arange(1, M) * np.pi / M)
    dzdchi = np.asarray(grid.getCompactificationDerivatives()[0], dtype=float)
    U = 0.0
    for j in range(n):
        val = Vv[j] - (Vl + Vh) / 2
        for k in range(nparticles):
            val = val + [12, 6][k] * float(msqd[k][1][j]) * D00[k, j] / 2
        U = U + (math.pi / M) * math.sqrt(1 - chi[j] ** 2) * float(dzdchi[j]) * val
    K = sum((float(vh[0, a]) - float(vl[0, a])) ** 2 / (6 * wp.widths[a]) for a in range(nf))
    h.prove_close("action = int dz (V + V_out - V_ref) + sum (Delta phi)^2 / (6 L)", S, U + K, rtol=0, atol=TOL * 1e3)
    h.observe("S", S)


def h_clip(h):
    """wall parameters are clipped into (1.1 lower, 0.9 upper) bounds before use"""
    eom, grid, dV, Vv, Vends, msqd, D00, bres = make_eom(h, 3, 1, 0, False)
    eom.thermo.Tnucl = 2.0
    w = h.real("w", 0.001, 500, default=0.03)
    o = h.real("o", -50, 50, default=20.0)
    wp = WallParams(widths=np.array([w], dtype=object if h.symbolic else float),
                    offsets=np.array([o], dtype=object if h.symbolic else float))
    _, vl, vh = _wall(1)
    seen = {}
    real = eom.wallProfile

    def spy(z, a, b, p):
        seen.setdefault("first", (p.widths[0], p.offsets[0]))
        return real(z, a, b, WallParams(widths=np.array([2.0]), offsets=np.array([0.0])))
    eom.wallProfile = spy
    eom._intermediatePressureResults(wp, vl, vh, -0.6, 0.4, -0.45, bres, 1.1, 1.0, np.ones(2), -0.4 * np.ones(2), 1.0)
    cw, co = seen["first"]
    h.prove("width clipped into [1.1 lo/Tn, 0.9 hi/Tn]", AND(core.ge(cw, 1.1 * 0.1 / 2.0), core.le(cw, 0.9 * 100.0 / 2.0),
                                                              core.OR(eq(cw, w), eq(cw, 1.1 * 0.1 / 2.0), eq(cw, 0.9 * 100.0 / 2.0))))
    h.prove("offset clipped into [1.1 lo, 0.9 hi]", AND(core.ge(co, -11.0), core.le(co, 9.0),
                                                         core.OR(eq(co, o), eq(co, -11.0), eq(co, 9.0))))


AX = [axioms.tanh_axioms]
_PQ = [dict(M=3, nf=1, nparticles=0, includeOffEq=False, regrid=False),
       dict(M=4, nf=2, nparticles=1, includeOffEq=True, regrid=False),
       dict(M=3, nf=2, nparticles=1, includeOffEq=True, regrid=True),
       dict(M=4, nf=1, nparticles=0, includeOffEq=False, regrid=True)]
_PT = _PQ + [dict(M=8, nf=2, nparticles=2, includeOffEq=True, regrid=True), dict(M=6, nf=2, nparticles=1, includeOffEq=False, regrid=True)]

from props.c19 import h_veff as _h_veff
import WallGo.effectivePotential as _EP
import WallGo.helpers as _HL

HARNESSES = [
    HarnessDef("wall-profile", h_profile, [dict(nf=1, zshape="scalar"), dict(nf=2, zshape="array"), dict(nf=2, zshape="scalar")],
               max_paths=10, timeout_s=60, axioms=AX, encodes=[EOMM.EOM.wallProfile], random_validation=2),
    HarnessDef("pressure-assembly", h_pressure, _PQ, _PT, max_paths=6, timeout_s=60,
               encodes=[EOMM.EOM._intermediatePressureResults, EOMM.EOM._toWallParams, EOMM.EOM._updateGrid,
                        PM.Polynomial.integrate], random_validation=1),
    HarnessDef("action", h_action, [dict(M=3, nf=1, nparticles=0), dict(M=4, nf=2, nparticles=1)],
               [dict(M=3, nf=1, nparticles=0), dict(M=4, nf=2, nparticles=1), dict(M=8, nf=2, nparticles=2)],
               max_paths=6, timeout_s=60, encodes=[EOMM.EOM.action], random_validation=1),
    HarnessDef("parameter-clipping", h_clip, [dict()], max_paths=30, timeout_s=30,
               encodes=[EOMM.EOM._intermediatePressureResults], random_validation=1),
    # dV/dphi entering the pressure integrand: the real EffectivePotential.derivField with ONE
    # TEMPERATURE PER GRID POINT (a profile) is, at every point, the exact field gradient at that
    # point's own temperature -- in particular a T-only part of the potential drops out (harness
    # shared with C19)
    HarnessDef("potential-gradient-on-a-profile", _h_veff,
               [dict(nfields=2, which="derivField", npoints=3, per_point_T=True),
                dict(nfields=1, which="derivField", npoints=2, per_point_T=True)],
               max_paths=100, timeout_s=120, validation_rtol=1e-2,
               encodes=[_EP.EffectivePotential.derivField, _HL.gradient]),
]

MANIFEST = {
    "text": "wallProfile: for all z, vevs, widths, offsets (1-2 fields) the returned gradient is the "
            "exact z-derivative of the returned profile and each field uses only its own parameters. "
            "Pressure and action: for all potential "
            "gradients/values and Delta00 (symbolic; QF_LRA) on real three-scale grids the pressure "
            "is -sum_j w_j sqrt(1-chi_j^2)(dz/dchi)_j (dV/dphi + 1/2 dof dm^2 Delta00).dphi/dz with "
            "the Jacobian of the scales in force after _updateGrid (compared with a freshly built "
            "grid), the action is U+K as documented, wall parameters are clipped into their bounds "
            "and the first offset is pinned to zero."
            " The real EffectivePotential.derivField on a temperature profile returns, at every point, the field gradient at that point's own temperature.",
    "note": "The statement 'pressure equals the free-energy difference' itself is a quadrature-"
            "convergence statement and is not decided; Nelder-Mead stubbed.",
}
