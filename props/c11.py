"""C11 -- a traced phase is one genuine minimum, tabulated only where it exists (bookkeeping).

The real `FreeEnergy.tracePhase` runs with the RK45 stepper, the re-minimiser and the second
derivatives of the potential replaced by nondeterministic stubs: every step lands at an
arbitrary temperature further along the requested direction with an arbitrary field value
and an arbitrary symmetric Hessian; the integrator may finish, go on, or collapse its step.
z3 decides on every path what the *table* looks like: abscissae strictly increasing and
containing the start, every tabulated point has a positive-definite Hessian (Sylvester
criterion, independent of the eigenvalue routine the code calls), no accepted point is lost,
range ends = table ends -/+ 2 dT, end flags set exactly when tracing stopped short of the
requested end.  `Thermodynamics.findCriticalTemperature` runs with the free-energy
difference an arbitrary function: the stepping loop establishes the bracket it hands to
brentq, and the returned temperature is a zero of the difference inside the coexistence range.
"""
import types

import numpy as np
import z3

import WallGo.freeEnergy as FE
import WallGo.thermodynamics as TH
from WallGo.exceptions import WallGoError
from WallGo.fields import FieldPoint, Fields

from symx import core, npx
from symx.core import AND, OR, NOT, Cond, Sym, eq, ge, gt, le, lt, ne
from symx.harness import HarnessDef, bare
from props.hydrokit import ScipyStubs

EXPLANATION = __doc__
BOUNDS = {"steps": "<= 1 integrator step per direction (quick); thorough adds 2 steps for the 2-field re-minimising case", "fields": "1 and 2",
          "Tc stepping loop": "unrolled 3", "paths": "<= 1500"}
OUTSIDE = ["accuracy of RK45 / BFGS; 'interpolated values agree with the exact minimum to the tracing "
           "tolerance'; staying on the same branch when the minimiser could hop phases (numerical)",
           "more than 2 steps per direction"]
ASSUMPTIONS = ["each integrator step moves strictly towards the requested end and not beyond it",
               "eigvalsh of a symbolic 1x1 / 2x2 symmetric matrix is its closed form; plain-float replays "
               "use the real scipy routine"]


class StepBound(core.PathAbort):
    pass


def make_free_energy(h, nf, paranoid, maxsteps=2, obj=None):
    h.patch(FE, float=npx.symfloat, np=npx.NP())
    T0 = h.real("T0", 1.0, 1e3, default=100.0)
    if obj is not None:
        # an object built by the real constructor (its initial range limits are the constructor's)
        fe = obj(T0)
    else:
        fe = bare(FE.FreeEnergy)
        fe.startingTemperature = T0
        fe.startingPhaseLocationGuess = Fields.castFromNumpy(np.zeros((1, nf)))
        fe.minPossibleTemperature = [0.0, False]
        fe.maxPossibleTemperature = [np.inf, False]
    hess_log = []   # (T, y tuple, H entries)

    def fresh_point(tag):
        return np.array([h.fresh(f"{tag}_phi{a}", -50, 50, default=1.0 + a) for a in range(nf)],
                        dtype=object if h.symbolic else float)

    def hessian(T):
        if nf == 1:
            a = h.fresh("H11", -10, 10, default=1.0)
            return np.array([[a]], dtype=object if h.symbolic else float)
        a, b, c = h.fresh("H11", -10, 10, default=2.0), h.fresh("H12", -10, 10, default=0.3), h.fresh("H22", -10, 10, default=1.0)
        return np.array([[a, b], [b, c]], dtype=object if h.symbolic else float)

    names_v = [f"a{i}" for i in range(nf)] + ["T"]
    Veff = h.ufun("Veff", eval(f"lambda {', '.join(names_v)}: -1.0 - 0.01 * T + 0.1 * ({' + '.join(n + '*' + n for n in names_v[:-1])})"))

    def V_at(point, T):
        pt = [core.unbox(x) for x in np.ravel(np.asarray(point))[:nf]]
        return Veff(*pt, core.unbox(np.asarray(T)))

    class Pot:
        def findLocalMinimum(self, guess, T, tol=None):
            # contract: the value reported is the potential at the reported minimum
            p = fresh_point("min")
            return np.array([p], dtype=object if h.symbolic else float), np.array([V_at(p, T)], dtype=object if h.symbolic else float)

        def deriv2Field2(self, fp, T):
            H = hessian(T)
            if not hess_log:
                # contract of findLocalMinimum at the starting temperature: a local minimum
                h.assume(_posdef(H), "the starting point returned by findLocalMinimum is a local minimum")
            hess_log.append((T, tuple(np.asarray(fp).ravel()), H))
            return H

        def allSecondDerivatives(self, fp, T):
            H = hessian(T)
            return H, np.zeros(nf), 0.0

        def derivField(self, f, T):
            return np.array([h.fresh("dV", -1, 1, default=0.0) for _ in range(nf)], dtype=object if h.symbolic else float)

        def evaluate(self, f, T):
            return np.array([V_at(f, T)], dtype=object if h.symbolic else float)
    fe.effectivePotential = Pot()
    fe._verif_V_at = V_at

    # eigenvalues of small symmetric matrices
    def eigvalsh(Hm):
        Hm = np.asarray(Hm)
        if Hm.dtype != object:
            import numpy.linalg as la
            return la.eigvalsh(Hm.astype(float))
        if Hm.shape == (1, 1):
            return np.array([Hm[0, 0]], dtype=object)
        a, b, c = Hm[0, 0], Hm[0, 1], Hm[1, 1]
        s = core.sym_sqrt((a - c) * (a - c) + 4 * b * b)
        return np.array([(a + c - s) / 2, (a + c + s) / 2], dtype=object)
    if h.symbolic:
        h.patch(FE, scipylinalg=types.SimpleNamespace(eigvalsh=eigvalsh, solve=lambda A, b, **k: np.zeros(nf)))
        proxy = npx.NP()
        proxy.linalg = types.SimpleNamespace(eigvalsh=eigvalsh, norm=lambda v: _norm(v))
        h.patch(FE, np=proxy)
    steps = {"up": [], "down": []}

    class RK45Stub:
        def __init__(self, fun, t0, y0, t_bound, rtol=None, atol=None, max_step=None, first_step=None):
            self.t, self.y, self.t_bound = t0, np.asarray(y0), t_bound
            self.status = "running"
            self.step_size = None
            self.dir = "up" if _gt(h, t_bound, t0) else "down"
            self.n = 0
            self.kw = dict(rtol=rtol, atol=atol, max_step=max_step, first_step=first_step)
            steps.setdefault("kw", []).append(self.kw)

        def step(self):
            self.n += 1
            if self.n > maxsteps:
                raise StepBound("more integrator steps than the bound")
            if h.flag("rk_reaches_end"):
                tnew = self.t_bound
                self.status = "finished"
            else:
                tnew = h.fresh("rk_t", 0.0, 1e4, default=(float(core.unbox(self.t)) + (3.0 if self.dir == "up" else -3.0)) if not h.symbolic else None)
                if self.dir == "up":
                    h.assume(AND(gt(tnew, self.t), lt(tnew, self.t_bound)))
                else:
                    h.assume(AND(lt(tnew, self.t), gt(tnew, self.t_bound)))
            collapsed = False if self.status == "finished" else h.flag("rk_step_collapses")
            if not collapsed:
                d = (tnew - self.t) if self.dir == "up" else (self.t - tnew)
                h.assume(ge(d, 1e-6 * fe.startingTemperature), "a step that does not collapse is longer than 1e-6 T0")
            self.step_size = 1e-30 if collapsed else abs(tnew - self.t) if not h.symbolic else core.sabs(tnew - self.t)
            self.t = tnew
            self.y = fresh_point("rk")
            steps[self.dir].append(dict(t=tnew, collapsed=collapsed, finished=self.status == "finished"))
    h.patch_always(FE, scipyint=types.SimpleNamespace(RK45=RK45Stub))
    table = {}

    def capture(x, fx):
        table["T"], table["rows"] = np.asarray(x), np.asarray(fx)
    fe.newInterpolationTableFromValues = capture
    return fe, T0, hess_log, steps, table


def _gt(h, a, b):
    return bool(a > b)


def _norm(v):
    s = 0.0
    for x in np.ravel(v):
        s = s + x * x
    return core.sym_sqrt(s) if isinstance(s, Sym) else s ** 0.5


def _posdef(H):
    if H.shape == (1, 1):
        return gt(H[0, 0], 0)
    return AND(gt(H[0, 0], 0), gt(H[0, 0] * H[1, 1] - H[0, 1] * H[1, 0], 0))


def h_trace(h, nf, paranoid, maxsteps=2):
    fe, T0, hess_log, steps, table = make_free_energy(h, nf, paranoid, maxsteps)
    TMin = h.real("TMin", 0.5, 1e3, default=90.0)
    TMax = h.real("TMax", 0.5, 1e3, default=110.0)
    h.assume(AND(lt(TMin, T0), lt(T0, TMax)))
    dT = h.real("dT", 1e-3, 10.0, default=1.0)
    try:
        fe.tracePhase(TMin, TMax, dT, rTol=1e-6, spinodal=True, paranoid=paranoid)
    except AssertionError:
        return  # "unstable at starting temperature" / "temperature range negative": documented aborts
    except RuntimeError as ex:
        if "Failed to trace phase" in str(ex):
            return
        raise
    Ts = table["T"]
    n = len(Ts)
    h.prove("table abscissae strictly increasing", AND(*[lt(Ts[i], Ts[i + 1]) for i in range(n - 1)]) if n > 1 else Cond(b=True))
    h.prove("table contains the starting temperature", OR(*[eq(t, T0) for t in Ts]))
    h.prove("row width = fields + potential", Cond(b=table["rows"].shape == (n, nf + 1)))
    if table["rows"].shape == (n, nf + 1):
        for i in range(n):
            h.prove_eq(f"tabulated free energy at point {i} = the potential at the tabulated field values and temperature",
                       table["rows"][i, nf], fe._verif_V_at(table["rows"][i, :nf], Ts[i]))
    # accepted steps: those after which the loop appended (spinodal test passed, no collapse)
    # every tabulated temperature other than T0 must be a step whose Hessian was tested
    # positive definite at the tabulated field value
    for i in range(n):
        t = Ts[i]
        recs = [(T, H) for (T, y, H) in hess_log if (isinstance(T, Sym) and isinstance(t, Sym) and T.t.eq(t.t)) or (not isinstance(T, Sym) and not isinstance(t, Sym) and T == t)]
        if not recs:
            h.prove("every tabulated point had its Hessian examined", Cond(b=False))
            continue
        h.prove(f"tabulated point {i}: Hessian positive definite (Sylvester)", _posdef(recs[-1][1]))
    # nothing accepted is lost
    for d in ("up", "down"):
        acc = []
        for k, s in enumerate(steps[d]):
            # a step is accepted iff its spinodal test passed and the step did not collapse
            Hs = [H for (T, y, H) in hess_log if _same(T, s["t"])]
            if s["collapsed"] or not Hs:
                break
            if not _decide(_posdef(Hs[-1])):
                break
            acc.append(s["t"])
        for t in acc:
            h.prove(f"accepted {d}ward point is in the table", OR(*[eq(t, x) for x in Ts]))
    h.prove_eq("lower range end = first abscissa + 2 dT", fe.minPossibleTemperature[0], Ts[0] + 2 * dT)
    h.prove_eq("upper range end = last abscissa - 2 dT", fe.maxPossibleTemperature[0], Ts[-1] - 2 * dT)
    h.prove("lower end flagged iff the table stops above the requested lower end",
            Cond(b=fe.minPossibleTemperature[1] == _decide(gt(Ts[0], TMin))))
    h.prove("upper end flagged iff the table stops below the requested upper end",
            Cond(b=fe.maxPossibleTemperature[1] == _decide(lt(Ts[-1], TMax))))
    # a direction that reached its requested end is not flagged
    reached_down = any(s["finished"] for s in steps["down"]) and _all_accepted(h, steps["down"], hess_log)
    reached_up = any(s["finished"] for s in steps["up"]) and _all_accepted(h, steps["up"], hess_log)
    if reached_down:
        h.prove("a downward trace that reached the requested end is not flagged as a disappearance",
                Cond(b=fe.minPossibleTemperature[1] is False))
    if reached_up:
        h.prove("an upward trace that reached the requested end is not flagged as a disappearance",
                Cond(b=fe.maxPossibleTemperature[1] is False))
    kw = steps["kw"][0]
    h.prove("integrator tolerances: rtol as requested, max_step = dT", Cond(b=kw["rtol"] == 1e-6 and _same(kw["max_step"], dT)))


def h_two_phases(h):
    """two phases of one model are two FreeEnergy objects built by the real constructor: tracing one
    of them (range cut short or not) leaves the other's range limits and end flags at their
    constructor values, and an object constructed afterwards starts from those values as well"""
    pot = types.SimpleNamespace(fieldCount=1)
    guess = Fields.castFromNumpy(np.zeros((1, 1)))
    other = FE.FreeEnergy(pot, 95.0, guess)
    fe, T0, hess_log, steps, table = make_free_energy(
        h, 1, False, 1, obj=lambda T0: FE.FreeEnergy(pot, T0, guess))
    own = (fe.minPossibleTemperature is not other.minPossibleTemperature
           and fe.maxPossibleTemperature is not other.maxPossibleTemperature)
    h.prove("each phase object owns its range limits (no list shared between two objects)", Cond(b=own))
    if not own:
        return  # tracing would write through the shared list into process-wide state
    h.prove("constructor: limits start at [0, False] and [inf, False]", Cond(
        b=list(fe.minPossibleTemperature) == [0.0, False] and list(fe.maxPossibleTemperature) == [np.inf, False]
        and list(other.minPossibleTemperature) == [0.0, False] and list(other.maxPossibleTemperature) == [np.inf, False]))
    TMin = h.real("TMin", 0.5, 1e3, default=90.0)
    TMax = h.real("TMax", 0.5, 1e3, default=110.0)
    h.assume(AND(lt(TMin, T0), lt(T0, TMax)))
    dT = h.real("dT", 1e-3, 10.0, default=1.0)
    try:
        fe.tracePhase(TMin, TMax, dT, rTol=1e-6, spinodal=True, paranoid=False)
    except AssertionError:
        return
    except RuntimeError as ex:
        if "Failed to trace phase" in str(ex):
            return
        raise
    h.prove("the traced phase got finite limits", Cond(b=len(table.get("T", [])) >= 1))
    late = FE.FreeEnergy(pot, 97.0, guess)
    for name, o in (("the other phase", other), ("a phase constructed afterwards", late)):
        h.prove(f"{name}: limits and end flags untouched by tracing this one", Cond(
            b=(not isinstance(o.minPossibleTemperature[0], Sym)) and (not isinstance(o.maxPossibleTemperature[0], Sym))
            and list(o.minPossibleTemperature) == [0.0, False] and list(o.maxPossibleTemperature) == [np.inf, False]))


def _same(a, b):
    if isinstance(a, Sym) and isinstance(b, Sym):
        return a.t.eq(b.t)
    if isinstance(a, Sym) or isinstance(b, Sym):
        return False
    return a == b


def _decide(c):
    if c.symbolic:
        return core.cur().branch(c.z)
    return c.b


def _all_accepted(h, ss, hess_log):
    for s in ss:
        Hs = [H for (T, y, H) in hess_log if _same(T, s["t"])]
        if s["collapsed"] or not Hs or not _decide(_posdef(Hs[-1])):
            return False
    return True


def h_tc_tracing(h, paranoid):
    """findCriticalTemperature traces untraced phases over the coexistence range with the spinodal
    stop ON and the requested re-minimisation setting"""
    h.patch(TH, float=npx.symfloat, np=npx.NP())
    th = bare(TH.Thermodynamics)
    calls = []

    class FEs:
        def __init__(self, lo, hi, tag):
            self.minPossibleTemperature = [lo, False]
            self.maxPossibleTemperature = [hi, False]
            self.tag, self.traced = tag, False

        def hasInterpolation(self):
            return self.traced

        def tracePhase(self, TMin, TMax, dT, rTol=1e-6, spinodal=True, paranoid=True, phaseTracerFirstStep=None):
            calls.append(dict(tag=self.tag, TMin=TMin, TMax=TMax, dT=dT, rTol=rTol, spinodal=spinodal, paranoid=paranoid))
            self.traced = True
            raise _Stop()

    lo1, hi1 = h.real("TMinH", 1, 1e3, default=80.0), h.real("TMaxH", 1, 1e3, default=120.0)
    h.assume(lt(lo1, hi1))
    th.freeEnergyHigh = FEs(lo1, hi1, "H")
    th.freeEnergyLow = FEs(lo1, hi1, "L")
    dT = h.real("dT", 1e-3, 50, default=3.0)
    for which in ("H", "L"):
        try:
            th.findCriticalTemperature(dT, rTol=1e-5, paranoid=paranoid)
        except _Stop:
            pass
        except WallGoError:
            return
    h.prove("both phases traced", Cond(b=[c["tag"] for c in calls] == ["H", "L"]))
    for c in calls:
        h.prove(f"phase {c['tag']}: spinodal stop enabled, requested re-minimisation setting and tolerance passed on",
                Cond(b=c["spinodal"] is True and c["paranoid"] is paranoid and c["rTol"] == 1e-5))
        h.prove(f"phase {c['tag']}: traced over the coexistence range with the requested step",
                AND(eq(c["TMin"], lo1), eq(c["TMax"], hi1), eq(c["dT"], dT)))


class _Stop(Exception):
    pass


def h_tc(h):
    h.patch(TH, float=npx.symfloat, np=npx.NP())
    th = bare(TH.Thermodynamics)
    F = h.ufun("dF", lambda T: 0.01 * (T - 100.0))     # F_low - F_high
    rng = {}
    for k, d in (("H", (80.0, 120.0)), ("L", (70.0, 115.0))):
        rng[k] = (h.real(f"TMin{k}", 1, 1e3, default=d[0]), h.real(f"TMax{k}", 1, 1e3, default=d[1]))

    class FEs:
        def __init__(self, lo, hi, sign):
            self.minPossibleTemperature = [lo, False]
            self.maxPossibleTemperature = [hi, False]
            self.sign = sign

        def hasInterpolation(self):
            return True

        def __call__(self, T):
            v = F(T) if self.sign > 0 else 0.0 * F(T)
            return types.SimpleNamespace(veffValue=np.asarray(v))
    th.freeEnergyHigh = FEs(*rng["H"], -1)
    th.freeEnergyLow = FEs(*rng["L"], +1)
    st = ScipyStubs(h, nondet_converged=True)
    h.patch_always(TH, scipy=types.SimpleNamespace(optimize=types.SimpleNamespace(root_scalar=st.root_scalar)))
    dT = h.real("dT", 1e-3, 50, default=3.0)
    lo = rng["H"][0] if _gt(h, rng["H"][0], rng["L"][0]) else rng["L"][0]
    hi = rng["H"][1] if _gt(h, rng["L"][1], rng["H"][1]) else rng["L"][1]
    h.assume(gt(hi - lo, 0))
    h.assume(lt(hi - lo, 4 * dT), "stepping loop unrolled: coexistence range shorter than 4 dT")
    try:
        Tc = th.findCriticalTemperature(dT, rTol=1e-6)
    except WallGoError:
        return
    h.prove_eq("Tc is a zero of F_low - F_high", F(Tc), 0.0)
    h.prove("Tc inside the coexistence range", AND(ge(Tc, lo), le(Tc, hi)))
    c = [x for x in st.calls if x[0] == "root_scalar"][0]
    a, b = c[2]
    h.prove("bracket of width dT inside the range", AND(eq(b - a, dT), ge(a, lo), le(b, hi)))
    h.prove("tolerances handed to brentq", Cond(b=c[4] == 1e-6))
    # under "high-T phase favoured at TMax" (F_low - F_high > 0 there) the low-T phase is favoured just below Tc
    h.prove("sign change across the bracket in the direction fixed at TMax",
            core.IMPLIES(gt(F(hi), 0), AND(le(F(a), 0), ge(F(b), 0))))


HARNESSES = [
    HarnessDef("tracePhase-bookkeeping", h_trace,
               [dict(nf=2, paranoid=True, maxsteps=1), dict(nf=1, paranoid=False, maxsteps=1), dict(nf=1, paranoid=True, maxsteps=1)],
               [dict(nf=nf, paranoid=p, maxsteps=1) for nf in (1, 2) for p in (True, False)] +
               [dict(nf=2, paranoid=True, maxsteps=2)], max_paths=30000, timeout_s=30,
               encodes=[FE.FreeEnergy.tracePhase], random_validation=0, concrete_alarms=False, feas_timeout_ms=300),
    HarnessDef("two-phases-independent", h_two_phases, [dict()], max_paths=3000, timeout_s=30,
               encodes=[FE.FreeEnergy.__init__, FE.FreeEnergy.tracePhase], random_validation=0, concrete_alarms=False,
               feas_timeout_ms=300),
    HarnessDef("critical-temperature-tracing", h_tc_tracing, [dict(paranoid=True), dict(paranoid=False)], max_paths=50,
               timeout_s=30, encodes=[TH.Thermodynamics.findCriticalTemperature], random_validation=1, concrete_alarms=False),
    HarnessDef("critical-temperature", h_tc, [dict()], max_paths=1500, timeout_s=30,
               encodes=[TH.Thermodynamics.findCriticalTemperature, TH.Thermodynamics._getCoexistenceRange],
               random_validation=0, concrete_alarms=False),
]

MANIFEST = {
    "text": "tracePhase with the integrator, the re-minimiser and the Hessian arbitrary (<=2 steps per "
            "direction, 1-2 fields, with and without re-minimisation): on every path the table handed to "
            "the spline has strictly increasing abscissae containing T0, every tabulated point passed a "
            "positive-definiteness test (checked with Sylvester's criterion, not the code's eigenvalue "
            "call), every accepted step is tabulated, range ends are table ends -/+ 2dT and the end flags "
            "are set exactly when the table stops short of the requested end. findCriticalTemperature with "
            "an arbitrary free-energy difference: the returned temperature is a zero inside the coexistence "
            "range, bracketed by a dT-wide sign change found by the stepping loop (unrolled 3)."
            " Two phases built by the real constructor own their range limits: tracing one leaves the other (and objects constructed later) at the constructor values."
            " Every tabulated free energy is the potential at the tabulated point and temperature.",
    "note": "Whether the tabulated point really is the continuous minimum (RK45/BFGS accuracy, branch "
            "hopping) is numerical and outside; only the decisions and the bookkeeping are decided.",
}
