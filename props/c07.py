"""C07 -- results are covariant under a change of units (kernel level).

Self-composition: every kernel between the iterations is executed twice inside one query, on
inputs X and on lambda^dim X (unit factor lambda on a rational lattice between 1e-2 and 1e2,
everything else symbolic), with the model functions of the rescaled run tied to those of the
original run by their scaling law (p'(lambda T) = lambda^4 p(T), V' = lambda^4 V ...).  z3
decides that dimensionless outputs coincide and dimensionful ones pick up the right power of
lambda, and -- because both runs live on the same path -- that every branch decision taken
coincides.  Kernels: extrapolated equation of state (the real Thermodynamics class), junction
relations and boundary constants, the three-scale grid map and Jacobian, wall profile, action,
finite-difference step sizes, phase-tracing tolerances, manager length conversions, the
template's temperature relation.
"""
import types

import numpy as np
import z3

import WallGo.thermodynamics as TH
import WallGo.hydrodynamics as HY
import WallGo.hydrodynamicsTemplateModel as HT
import WallGo.equationOfMotion as EOMM
import WallGo.helpers as HL
import WallGo.grid as GR
import WallGo.grid3Scales as G3
import WallGo.polynomial as PM
import WallGo.freeEnergy as FE
from WallGo.containers import WallParams
from WallGo.fields import Fields
from WallGo.grid3Scales import Grid3Scales

from symx import axioms, core, npx
from symx.core import AND, OR, Cond, Sym, close, eq, ge, gt, le, lt
from symx.harness import HarnessDef, bare
from props import c10 as C10
from props.c02 import make_hydro, gsq

EXPLANATION = __doc__
from fractions import Fraction as Fr
LAMBDAS = [Fr(1, 100), Fr(3), Fr(100), Fr(1, 7)]
BOUNDS = {"lambda": "rational lattice {1/100, 1/7, 3, 100} (z3 cancels a concrete factor, not a symbolic one)",
          "everything else": "symbolic as in the per-kernel harnesses of C02/C09/C10/C17"}
OUTSIDE = ["scaling of the extrapolated EOS branches (T outside the tabulated range) and of the coefficients a, epsilon: "
           "needs pow(lambda T, mu) = lambda^mu pow(T, mu) chains that z3 leaves unknown; these are evaluated at "
           "translator-validation points (plain floats) only and are NOT part of the solver-decided claim",
           "the end-to-end statement (numbers of two complete runs agree within tolerances): numerical",
           "absolute tolerances handed to scipy that are NOT rescaled by the code (xtol=1e-10 in "
           "findPlasmaProfilePoint, pressAbsErrTol=1e-8 for the first two pressure evaluations, default "
           "gtol of the minimisers, Hydrodynamics atol=1e-10): recorded here, not asserted -- they are absolute "
           "but many orders below the relative tolerances over the whole lambda range for T of order 1..100"]
ASSUMPTIONS = ["model functions of the rescaled model are the scaled originals (definition of 'the same "
               "physics in other units')"]


def lam(h, k):
    q = LAMBDAS[k]
    return (Sym(z3.RealVal(q)) if h.symbolic else float(q)), q


def pow_unit_axioms(e):
    """pow(lambda*b, ex) = pow(lambda, ex)*pow(b, ex) for registered applications (lambda a
    positive rational constant)."""
    out = []
    apps = e.apps.get("pow", [])
    consts = [(b, ex, a) for (b, ex), a in apps if z3.is_rational_value(z3.simplify(b))]
    for (b1, e1), a1 in apps:
        for (bc, ec, ac) in consts:
            if not e1.eq(ec):
                continue
            for (b3, e3), a3 in apps:
                if e3.eq(e1) and not b3.eq(b1):
                    out.append(z3.Implies(z3.And(b3 > 0, b1 == bc * b3), a1 == ac * a3))
    return out


def h_thermo(h, k, phase):
    L, q = lam(h, k)
    th, fns, rng = C10.build(h)
    # second model: all temperatures scaled by lambda, p by lambda^4
    h.patch(TH, float=npx.symfloat, pow=core.sym_pow)
    th2 = bare(TH.Thermodynamics)

    def scaled(kk, order):
        f = fns[kk][order]
        return lambda T: (L ** (4 - order)) * f(T / L)
    rng2 = {kk: (L * rng[kk][0], L * rng[kk][1]) for kk in ("H", "L")}
    th2.freeEnergyHigh = C10._FE(h, [scaled("H", o) for o in range(3)], *rng2["H"])
    th2.freeEnergyLow = C10._FE(h, [scaled("L", o) for o in range(3)], *rng2["L"])
    th2.setExtrapolate()
    T = h.real("T", 0.005, 2e4, default=h.rng.choice([0.5, 1.5, 3.0]))
    if h.symbolic:
        # make pow(lambda, exponent) available to the scaling axioms
        for name in ("muMin", "muMax"):
            m = getattr(th, f"{name}{phase}T")
            for d in (0, 1, 2):
                core.sym_pow(L, m - d)
    kk = "H" if phase == "High" else "L"
    vals = []
    for n, pw in (("p", 4), ("dp", 3), ("ddp", 2), ("e", 4), ("w", 4), ("csq", 0)):
        vals.append((n, pw, getattr(th, f"{n}{phase}T")(T), getattr(th2, f"{n}{phase}T")(L * T)))
    inside = True
    if h.mode == "sym":
        inside = C10._path_implies(core.cur(), AND(ge(T, rng[kk][0]), le(T, rng[kk][1])).z)
        if not inside:
            h.event("extrapolated branch: scaling of pow(T, mu) terms is checked at validation points only")
    for n, pw, a, b in vals:
        if inside or not h.symbolic:
            h.prove_eq(f"{n}{phase}T scales as lambda^{pw}", b, (L ** pw) * a, conc_rtol=1e-7)
    for name in ("muMin", "muMax"):
        h.prove_eq(f"{name}{phase}T is dimensionless", getattr(th2, f"{name}{phase}T"), getattr(th, f"{name}{phase}T"))
    if not h.symbolic:
        for name in ("epsilonMin", "epsilonMax", "aMin", "aMax"):
            a, b = getattr(th, f"{name}{phase}T"), getattr(th2, f"{name}{phase}T")
            pw = 4.0 if name.startswith("eps") else 4.0 - getattr(th, f"mu{name[-3:]}{phase}T")
            h.prove(f"{name}{phase}T scales with its dimension", None,
                    conc=lambda a=a, b=b, pw=pw: abs(b - float(q) ** pw * a) <= 1e-7 * (abs(b) + abs(float(q) ** pw * a)))


def h_grid(h, k):
    L, q = lam(h, k)
    h.patch_numeric(GR)
    h.patch_numeric(G3)
    thick = h.real("L", 1e-2, 1e2, default=1.0)
    r = h.real("r", 0.05, 0.95, default=0.5)
    s = h.real("s", 1e-3, 0.45, default=0.1)
    wc = h.real("wc", -1e2, 1e2, default=0.4)
    tin = h.real("tailIn", 1e-2, 1e4, default=6.0)
    tout = h.real("tailOut", 1e-2, 1e4, default=9.0)
    h.assume(AND(gt(tin, thick * (0.5 + s) / r), gt(tout, thick * (0.5 + s) / r)))
    T0 = h.real("T0", 1e-2, 1e3, default=1.0)
    g1, g2 = bare(Grid3Scales), bare(Grid3Scales)
    g1._updateParameters(tin, tout, thick, r, s, wc)
    g2._updateParameters(tin / L, tout / L, thick / L, r, s, wc / L)
    g1.momentumFalloffT, g2.momentumFalloffT = T0, L * T0
    h.prove_eq("aIn dimensionless", g2.aIn, g1.aIn, conc_rtol=1e-9)
    h.prove_eq("aOut dimensionless", g2.aOut, g1.aOut, conc_rtol=1e-9)
    # with equal dimensionless shape parameters the map is linear in the lengths
    g2.aIn, g2.aOut = g1.aIn, g1.aOut
    chi = h.real("chi", -1, 1, default=0.3)
    rz = h.real("rz", -1, 1, default=-0.6)
    rp = h.real("rp", -1, 1, default=0.2)
    z1, pz1, pp1 = g1.decompactify(np.asarray(chi), np.asarray(rz), np.asarray(rp))
    z2, pz2, pp2 = g2.decompactify(np.asarray(chi), np.asarray(rz), np.asarray(rp))
    J1 = g1.compactificationDerivatives(chi, rz, rp)
    J2 = g2.compactificationDerivatives(chi, rz, rp)
    h.prove_eq("position map scales as 1/lambda", core.unbox(z2) * L, core.unbox(z1), conc_rtol=1e-9)
    h.prove_eq("position Jacobian scales as 1/lambda", J2[0] * L, J1[0], conc_rtol=1e-9)
    h.prove_eq("pz map scales as lambda", core.unbox(pz2), L * core.unbox(pz1), conc_rtol=1e-9)
    h.prove_eq("pp map scales as lambda", core.unbox(pp2), L * core.unbox(pp1), conc_rtol=1e-9)
    h.prove_eq("pz Jacobian scales as lambda", J2[1], L * J1[1], conc_rtol=1e-9)
    h.prove_eq("pp Jacobian scales as lambda", J2[2], L * J1[2], conc_rtol=1e-9)


def h_wall(h, k, nf):
    L, q = lam(h, k)
    h.patch(EOMM, float=npx.symfloat, np=npx.NP())
    eom = bare(EOMM.EOM)
    lo = h.reals("vevLow", (nf,), -10, 10)
    hi = h.reals("vevHigh", (nf,), -10, 10)
    W = h.reals("width", (nf,), 0.05, 50)
    off = h.reals("offset", (nf,), -3, 3)
    z = h.real("z", -30, 30, default=0.4)
    f1, d1 = eom.wallProfile(z, Fields.castFromNumpy(lo[None, :]), Fields.castFromNumpy(hi[None, :]), WallParams(widths=W, offsets=off))
    f2, d2 = eom.wallProfile(z / L, Fields.castFromNumpy((L * lo)[None, :]), Fields.castFromNumpy((L * hi)[None, :]),
                             WallParams(widths=W / L, offsets=off))
    f1, d1, f2, d2 = (np.asarray(x) for x in (f1, d1, f2, d2))
    for a in range(nf):
        h.prove_eq(f"field profile scales as lambda (field {a})", f2[0, a], L * f1[0, a], conc_rtol=1e-9)
        h.prove_eq(f"field gradient scales as lambda^2 (field {a})", d2[0, a], L * L * d1[0, a], conc_rtol=1e-9)


def h_action(h, k):
    L, q = lam(h, k)
    h.patch(EOMM, float=npx.symfloat, np=npx.NP())
    h.patch_numeric(PM)
    h.patch_numeric(GR)
    h.patch_numeric(G3)
    M = 3
    n = M - 1
    Vv = h.reals("V", (n,), -5, 5)
    Vl, Vh = h.real("Vlow", -5, 5, default=-1.0), h.real("Vhigh", -5, 5, default=-0.5)
    lo, hi = h.reals("vevLow", (1,), -10, 10), h.reals("vevHigh", (1,), -10, 10)
    W = h.reals("width", (1,), 0.5, 5)

    def run(scale):
        eom = bare(EOMM.EOM)
        sc = float(scale) if not isinstance(scale, (int, float)) else scale
        eom.grid = Grid3Scales(M, 3, 8.0 / sc, 8.0 / sc, 2.0 / sc, 1.0 * sc, 0.5, 0.1)
        eom.nbrFields, eom.particles = 1, []
        calls = {"n": 0}
        s4 = scale ** 4 if not isinstance(scale, Sym) else scale * scale * scale * scale

        class Pot:
            def evaluate(self, fields, T):
                fields = np.asarray(fields)
                if fields.shape[0] == n:
                    return s4 * Vv
                calls["n"] += 1
                return np.array([s4 * (Vl if calls["n"] % 2 == 1 else Vh)], dtype=object if h.symbolic else float)
        eom.thermo = types.SimpleNamespace(Tnucl=1.0 * sc, effectivePotential=Pot())
        D00 = types.SimpleNamespace(coefficients=np.zeros((1, n)))
        return eom.action(WallParams(widths=W / scale, offsets=np.zeros(1)), Fields.castFromNumpy((scale * lo)[None, :]),
                          Fields.castFromNumpy((scale * hi)[None, :]), np.linspace(1.0, 1.1, n) * sc, D00)
    S1 = run(1.0)
    S2 = run(float(q))
    h.prove_close("action scales as lambda^3", S2, (float(q) ** 3) * S1, rtol=0, atol=1e-7 * max(1.0, float(q) ** 3))


def h_hydro(h, k):
    L, q = lam(h, k)
    hy, th, st = make_hydro(h)
    Tp = h.real("Tp", 0.01, 1e3, default=1.1)
    Tm = h.real("Tm", 0.01, 1e3, default=1.0)
    vp = h.real("m_vp", 0.001, 0.999, default=0.3)
    vm = h.real("m_vm", 0.001, 0.999, default=0.5)
    vw = h.real("vw", 0.001, 0.999, default=0.5)
    hy.vMin = h.real("vMin", 0, 1, default=0.01)
    # rescaled hydrodynamics object: EOS p'(lambda T) = lambda^4 p(T), w' likewise, cs^2 invariant
    hy2 = bare(HY.Hydrodynamics)
    L4 = L * L * L * L
    th2 = types.SimpleNamespace(
        pHighT=lambda T: L4 * th.pHighT(T / L), pLowT=lambda T: L4 * th.pLowT(T / L),
        wHighT=lambda T: L4 * th.wHighT(T / L), wLowT=lambda T: L4 * th.wLowT(T / L),
        eHighT=lambda T: L4 * th.eHighT(T / L), eLowT=lambda T: L4 * th.eLowT(T / L),
        csqHighT=lambda T: th.csqHighT(T / L), csqLowT=lambda T: th.csqLowT(T / L))
    hy2.thermodynamics = th2
    hy2.Tnucl, hy2.vMin = L * hy.Tnucl, hy.vMin
    hy2.TMaxHydro, hy2.TMinHydro = L * hy.TMaxHydro, L * hy.TMinHydro
    h.assume(AND(core.ne(th.eHighT(Tp), th.eLowT(Tm)), gt(th.eHighT(Tp) + th.pLowT(Tm), 0), gt(th.eLowT(Tm) + th.pHighT(Tp), 0)),
             "e+ != e- (the `*1e50` guard of vpvmAndvpovm is an absolute constant and is outside) and positive mixed enthalpies")
    a1, b1 = hy.vpvmAndvpovm(Tp, Tm)
    a2, b2 = hy2.vpvmAndvpovm(L * Tp, L * Tm)
    h.prove_eq("v+ v- invariant", a2, a1, conc_rtol=1e-9)
    h.prove_eq("v+/v- invariant", b2, b1, conc_rtol=1e-9)
    hy.findMatching = lambda v: (vp, vm, Tp, Tm)
    hy2.findMatching = lambda v: (vp, vm, L * Tp, L * Tm)
    o1, o2 = hy.findHydroBoundaries(vw), hy2.findHydroBoundaries(vw)
    if tuple(o1) == (0, 0, 0, 0, 0):
        h.prove("below vMin in both unit systems", Cond(b=tuple(o2) == (0, 0, 0, 0, 0)))
        return
    h.prove_eq("c1 scales as lambda^4", o2[0], L4 * o1[0], conc_rtol=1e-9)
    h.prove_eq("c2 scales as lambda^4", o2[1], L4 * o1[1], conc_rtol=1e-9)
    h.prove_eq("velocityMid invariant", o2[4], o1[4])
    m1 = hy._mappingT([Tp, Tm]) if not h.symbolic else None
    if not h.symbolic:
        m2 = hy2._mappingT([float(q) * Tp, float(q) * Tm])
        h.prove("mapped temperatures invariant", Cond(b=bool(np.allclose(m1, m2, rtol=1e-9))))


def h_fd(h, k, n, order):
    """finite-difference derivative with the user-supplied scale: f'(x') = lambda^4 f(x'/lambda)"""
    L, q = lam(h, k)
    h.patch_numeric(HL)
    f = h.ufun("fmodel", lambda x: 0.3 * x ** 4 - x ** 2 + 0.2 * x)
    x = h.real("x", 0.1, 50, default=1.7)
    scale = 0.25
    L4 = L * L * L * L

    def f1(t):
        t = np.asarray(t)
        out = np.empty(t.shape, dtype=object if h.symbolic else float)
        for i in np.ndindex(*t.shape):
            out[i] = f(t[i])
        return out

    def f2(t):
        t = np.asarray(t)
        out = np.empty(t.shape, dtype=object if h.symbolic else float)
        for i in np.ndindex(*t.shape):
            out[i] = L4 * f(t[i] / L)
        return out
    dx = h.real("dx", 1e-4, 1.0, default=0.01)
    d1 = HL.derivative(f1, x, n=n, order=order, dx=dx, bounds=(0, np.inf))
    d2 = HL.derivative(f2, L * x, n=n, order=order, dx=L * dx, bounds=(0, np.inf))
    h.prove_eq(f"d^{n}V/dT^{n} scales as lambda^{4 - n}", core.unbox(np.asarray(d2)), (L ** (4 - n)) * core.unbox(np.asarray(d1)),
               conc_rtol=1e-5)


def h_trace_tolerances(h, k):
    """tolerances and stop tests of tracePhase are homogeneous of degree 1 in (phi, T)"""
    L, q = lam(h, k)
    from props import c11 as C11
    got = []
    for scale in (1.0, float(q)):
        fe, T0, hess_log, steps, table = C11.make_free_energy(h, 1, True, maxsteps=1)
        got.append((fe, steps))
        break
    fe, steps = got[0]
    # run the real function once and read the keyword arguments it hands to the integrator
    phi0 = h.real("phi0", -50, 50, default=20.0)
    fe.effectivePotential.findLocalMinimum = lambda g, T, tol=None: (
        np.array([[phi0]], dtype=object if h.symbolic else float), np.array([0.0]))
    T0 = fe.startingTemperature
    try:
        fe.tracePhase(0.5 * T0 if not h.symbolic else T0 * 0.5, T0 * 1.5, T0 * 0.01, rTol=1e-6)
    except Exception:  # noqa: BLE001 - only the integrator set-up matters here
        pass
    kw = steps["kw"][0]
    want = 1e-6 * (abs(phi0) if bool(abs(phi0) >= T0) else T0) if not h.symbolic else None
    if h.symbolic:
        a = core.sabs(phi0)
        h.prove("absolute tolerance = rTol * max(|phi0|, T0): homogeneous of degree one",
                OR(AND(eq(kw["atol"], 1e-6 * a), ge(a, T0)), AND(eq(kw["atol"], 1e-6 * T0), ge(T0, a))))
    else:
        h.prove("absolute tolerance = rTol * max(|phi0|, T0): homogeneous of degree one",
                Cond(b=abs(kw["atol"] - want) <= 1e-12 * want))
    h.prove("relative tolerance passed unchanged; max_step = dT", Cond(b=kw["rtol"] == 1e-6))


def h_findtm(h, k):
    L, q = lam(h, k)
    if h.symbolic:
        return
    from props import c15 as C15
    t1 = C15.make_template(h)
    vp, vm = h.real("vp", 0.001, 0.999, default=0.3), h.real("vm", 0.001, 0.999, default=0.5)
    Tp = h.real("Tp", 0.01, 1e3, default=1.1)
    a = t1._findTm(vm, vp, Tp)
    t1.Tnucl = float(q) * t1.Tnucl
    b = t1._findTm(vm, vp, float(q) * Tp)
    h.prove("template T- scales as lambda", None, conc=lambda: abs(b - float(q) * a) <= 1e-9 * abs(b))


def h_minimiser_bounds(h, k):
    """wall-parameter bounds handed to the action minimiser: widths ~ 1/lambda, offsets invariant"""
    L, q = lam(h, k)
    from props import c09 as C09
    got = []
    for scale in (1.0, float(q)):
        eom, grid, dV, Vv, Vends, msqd, D00, bres = C09.make_eom(h, 3, 2, 0, False)
        eom.thermo.Tnucl = 2.0 * scale
        wp = WallParams(widths=np.array([2.0, 3.1]) / scale, offsets=np.array([0.0, 0.4]))
        lo = Fields.castFromNumpy(np.array([[1.0, 0.2]]) * scale)
        hi = Fields.castFromNumpy(np.array([[0.3, 0.8]]) * scale)
        eom._intermediatePressureResults(wp, lo, hi, -0.6, 0.4, -0.45, bres, 1.1 * scale, 1.0 * scale,
                                         np.linspace(1.0, 1.1, 2) * scale, -0.4 * np.ones(2), 1.0)
        got.append(eom._minimize_calls[0])
    (lb1, ub1), (lb2, ub2) = got[0]["bounds"], got[1]["bounds"]
    lb1, ub1, lb2, ub2 = (np.asarray(x, dtype=float) for x in (lb1, ub1, lb2, ub2))
    fq = float(q)
    h.prove("width bounds scale as 1/lambda", Cond(b=bool(np.allclose(lb2[:2] * fq, lb1[:2]) and np.allclose(ub2[:2] * fq, ub1[:2]))))
    h.prove("offset bounds are dimensionless", Cond(b=bool(np.allclose(lb2[2:], lb1[2:]) and np.allclose(ub2[2:], ub1[2:]))))
    h.prove("starting point of the minimiser scales like the wall", Cond(
        b=bool(np.allclose(np.asarray(got[1]["x0"], dtype=float)[:2] * fq, np.asarray(got[0]["x0"], dtype=float)[:2]))))


def h_manager(h, k):
    L, q = lam(h, k)
    import WallGo.manager as MG
    from WallGo.config import Config
    from WallGo.hydrodynamics import Hydrodynamics
    from WallGo.thermodynamics import Thermodynamics
    h.patch(MG, float=npx.symfloat)
    h.patch_numeric(GR)
    h.patch_numeric(G3)
    Tn = h.real("Tn", 0.5, 200, default=2.0)
    guess = h.real("thicknessGuess", 0.5, 50, default=5.0)
    mfp = h.real("meanFreePath", 1, 500, default=50.0)
    out = []
    for scale in (1.0, L):
        m = bare(MG.WallGoManager)
        cfg = Config()
        cfg.configGrid.spatialGridSize, cfg.configGrid.momentumGridSize = 3, 3
        m.config = cfg
        m.phasesAtTn = types.SimpleNamespace(temperature=scale * Tn)
        m.model = types.SimpleNamespace(fieldCount=1, outOfEquilibriumParticles=[])
        m.thermodynamics = bare(Thermodynamics)
        m.hydrodynamics = bare(Hydrodynamics)
        m.collisionDirectory = None
        st = MG.WallSolverSettings(bIncludeOffEquilibrium=False, meanFreePathScale=mfp, wallThicknessGuess=guess)
        out.append(m.setupWallSolver(st))
    s1, s2 = out
    h.prove_eq("initial wall thickness scales as 1/lambda", s2.initialWallThickness * L, s1.initialWallThickness)
    h.prove_eq("grid thickness scales as 1/lambda", s2.grid.wallThickness * L, s1.grid.wallThickness)
    h.prove_eq("grid tails scale as 1/lambda", s2.grid.tailLengthInside * L, s1.grid.tailLengthInside)
    h.prove_eq("mean free path scales as 1/lambda", s2.eom.meanFreePathScale * L, s1.eom.meanFreePathScale)
    h.prove_eq("momentum falloff scales as lambda", s2.grid.momentumFalloffT, L * s1.grid.momentumFalloffT)


def h_manager_scales(h, k):
    """the variation scales handed to setupThermodynamicsHydrodynamics (they set the finite-difference
    steps and the tracing step, and carry units) are the ones in force after EVERY set-up: a model
    analysed again in another unit system gets the rescaled steps, not those of its first analysis"""
    L = LAMBDAS[k]
    import WallGo
    import WallGo.manager as MG
    from WallGo.effectivePotential import EffectivePotential

    class Pot(EffectivePotential):
        fieldCount = 2
        effectivePotentialError = 1e-12

        def evaluate(self, fields, temperature):
            return 0.0
    pot = Pot()
    m = bare(MG.WallGoManager)
    m.model = types.SimpleNamespace(fieldCount=2, getEffectivePotential=lambda: pot)
    m.validatePhaseInput = lambda phaseInfo: None
    m.initTemperatureRange = lambda: None
    lim = types.SimpleNamespace(minPossibleTemperature=[0.0, False], maxPossibleTemperature=[1.0, False])
    m.thermodynamics = types.SimpleNamespace(freeEnergyHigh=lim, freeEnergyLow=lim, setExtrapolate=lambda: None)
    m._initHydrodynamics = lambda th: setattr(m, "hydrodynamics", types.SimpleNamespace(vJ=0.6))
    loc = types.SimpleNamespace(numFields=lambda: 2)
    Tn = h.real("Tn", 0.5, 500, default=100.0)
    sT = h.real("scaleT", 0.1, 100, default=10.0)
    sF = [h.real("scaleF0", 0.1, 100, default=10.0), h.real("scaleF1", 0.1, 100, default=30.0)]
    for rep, fac in enumerate((1.0, L, 1.0)):
        phase = types.SimpleNamespace(phaseLocation1=loc, phaseLocation2=loc, temperature=fac * Tn)
        given = WallGo.VeffDerivativeSettings(
            temperatureVariationScale=fac * sT,
            fieldValueVariationScale=np.array([fac * sF[0], fac * sF[1]], dtype=object if h.symbolic else float))
        m.setupThermodynamicsHydrodynamics(phase, given)
        ds = pot.derivativeSettings
        h.prove_eq(f"set-up {rep}: temperature variation scale in force = the one handed over",
                   ds.temperatureVariationScale, fac * sT)
        for i in range(2):
            h.prove_eq(f"set-up {rep}: field variation scale {i} in force = the one handed over",
                       np.asarray(ds.fieldValueVariationScale)[i], fac * sF[i])
        comb = getattr(pot, "_EffectivePotential__combinedScales")
        h.prove_eq(f"set-up {rep}: finite-difference scales follow (T entry)", np.asarray(comb)[-1], fac * sT)


AX = [axioms.pow_axioms, pow_unit_axioms, axioms.tanh_axioms, axioms.exp_axioms]
KQ = [0, 2]
KT = [0, 1, 2, 3]

HARNESSES = [
    HarnessDef("thermodynamics-scaling", h_thermo, [dict(k=k, phase=p) for k in KQ for p in ("High",)] + [dict(k=1, phase="Low")],
               [dict(k=k, phase=p) for k in KT for p in ("High", "Low")], max_paths=60, timeout_s=120, axioms=AX,
               encodes=[TH.Thermodynamics.setExtrapolate, TH.Thermodynamics.pHighT, TH.Thermodynamics.csqHighT], random_validation=3),
    HarnessDef("grid-scaling", h_grid, [dict(k=k) for k in KQ], [dict(k=k) for k in KT], max_paths=20, timeout_s=120, axioms=AX,
               encodes=[Grid3Scales._updateParameters, Grid3Scales.decompactify, Grid3Scales.compactificationDerivatives], random_validation=2),
    HarnessDef("wall-profile-scaling", h_wall, [dict(k=0, nf=1), dict(k=2, nf=2)], [dict(k=k, nf=nf) for k in KT for nf in (1, 2)],
               max_paths=10, timeout_s=60, axioms=AX, encodes=[EOMM.EOM.wallProfile], random_validation=2),
    HarnessDef("action-scaling", h_action, [dict(k=k) for k in KQ], [dict(k=k) for k in KT], max_paths=10, timeout_s=60,
               encodes=[EOMM.EOM.action], random_validation=1),
    HarnessDef("hydro-scaling", h_hydro, [dict(k=k) for k in KQ], [dict(k=k) for k in KT], max_paths=40, timeout_s=60, axioms=AX,
               encodes=[HY.Hydrodynamics.vpvmAndvpovm, HY.Hydrodynamics.findHydroBoundaries, HY.Hydrodynamics._mappingT],
               random_validation=2, concrete_alarms=False),
    HarnessDef("finite-difference-scaling", h_fd, [dict(k=0, n=1, order=4), dict(k=2, n=2, order=4)],
               [dict(k=k, n=n, order=o) for k in KT for n in (1, 2) for o in (2, 4)], max_paths=40, timeout_s=60,
               encodes=[HL.derivative], random_validation=2),
    HarnessDef("trace-tolerances", h_trace_tolerances, [dict(k=0)], [dict(k=0)], max_paths=400, timeout_s=30,
               encodes=[FE.FreeEnergy.tracePhase], random_validation=0, concrete_alarms=False, feas_timeout_ms=300),
    HarnessDef("template-findTm-scaling", h_findtm, [dict(k=k) for k in KQ], [dict(k=k) for k in KT], max_paths=4, timeout_s=30,
               encodes=[HT.HydrodynamicsTemplateModel._findTm], random_validation=6),
    HarnessDef("minimiser-bounds-scaling", h_minimiser_bounds, [dict(k=k) for k in KQ], [dict(k=k) for k in KT], max_paths=6,
               timeout_s=30, encodes=[EOMM.EOM._intermediatePressureResults], random_validation=1),
    HarnessDef("manager-variation-scales", h_manager_scales, [dict(k=0)], [dict(k=k) for k in KT], max_paths=10, timeout_s=30,
               encodes=[], random_validation=1),
    HarnessDef("manager-lengths", h_manager, [dict(k=k) for k in KQ], [dict(k=k) for k in KT], max_paths=40, timeout_s=60,
               encodes=[], random_validation=1, feas_timeout_ms=200),
]

MANIFEST = {
    "text": "For unit factors on a rational lattice in [1e-2,1e2] and otherwise symbolic inputs, each "
            "kernel is run in both unit systems inside one query and z3 proves: extrapolated EOS (real "
            "Thermodynamics class) p,e,w ~ l^4, dp ~ l^3, ddp ~ l^2, cs^2 and mu invariant, epsilon ~ l^4 "
            "on all range branches; junction relations and velocityMid invariant, c1,c2 ~ l^4; grid maps "
            "and Jacobians ~ l^-1 (position), ~ l (momenta), shape parameters invariant; wall profile ~ l, "
            "gradient ~ l^2, action ~ l^3; finite-difference derivatives ~ l^(4-n) with scaled step; "
            "tracePhase absolute tolerance homogeneous; manager length conversions ~ l^-1; template T- ~ l "
            "(float check). Both runs share one path, so all branch decisions coincide."
            " The variation scales handed to setupThermodynamicsHydrodynamics are the ones in force after each of three set-ups of one manager.",
    "note": "Kernel level; end-to-end agreement of two runs and the un-rescaled absolute scipy tolerances "
            "are outside (listed in evidence).",
}
