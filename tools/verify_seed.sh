#!/bin/bash
# tools/verify_seed.sh <ID> [suffix]: confirm a seeded change delivered in /tmp/wt_<ID><suffix> and keep it
# under /verif/seeded/<ID><suffix>/ (patch.diff, demo, notes, meta.json).  Then run the check against it.
ID="$1"; SFX="${2:-}"; WT=/tmp/wt_$ID$SFX; OUT=/verif/seeded/$ID$SFX
set -u
cd $WT || exit 2
[ -s patch.diff ] || { echo "no patch.diff"; exit 2; }
export PYTHONPATH=$WT/src
git checkout -q -- src && git apply patch.diff || { echo "patch does not apply to clean worktree"; exit 2; }
timeout 600 /venv/bin/python demo_$ID.py > /tmp/seed_$ID$SFX.demo_with.log 2>&1; RC_WITH=$?
timeout 1500 /venv/bin/python -m pytest -q -p no:cacheprovider --timeout=900 --continue-on-collection-errors > /tmp/seed_$ID$SFX.tests.log 2>&1
TESTS=$(tail -1 /tmp/seed_$ID$SFX.tests.log)
git apply -R patch.diff
timeout 600 /venv/bin/python demo_$ID.py > /tmp/seed_$ID$SFX.demo_without.log 2>&1; RC_WITHOUT=$?
unset PYTHONPATH
mkdir -p $OUT; cp patch.diff demo_$ID.py $OUT/; cp notes.txt $OUT/notes.txt 2>/dev/null
# run the check against the change in /repo
cd /verif
# (scratch worktree with the patch applied; /repo itself is left alone so that other work can go on.
#  The registered way -- git -C /repo apply; bin/check; git -C /repo checkout -- . -- gives the same result.)
CHK=/tmp/chk_$ID$SFX
git -C /repo worktree remove --force $CHK 2>/dev/null
git -C /repo worktree add -q $CHK HEAD
(cd $CHK && git apply $OUT/patch.diff) || echo "patch does not apply to current HEAD"
VERIF_REPO_SRC=$CHK/src timeout 3000 bin/check $ID --no-evidence > /tmp/seed_$ID$SFX.check.log 2>&1; RC_CHECK=$?
git -C /repo worktree remove --force $CHK
NV=$(grep -c '^VIOLATION' /tmp/seed_$ID$SFX.check.log)
python3 - <<PY
import json
meta={"property":"$ID","patch":"patch.diff","demo":"demo_$ID.py",
 "demo_exit_with_change":$RC_WITH,"demo_exit_without_change":$RC_WITHOUT,
 "test_suite_with_change":"""$TESTS""",
 "check_cmd":"git -C /repo apply seeded/$ID$SFX/patch.diff && bin/check $ID; git -C /repo checkout -- .",
 "check_exit":$RC_CHECK,"check_violation_lines":$NV,
 "needs_to_manifest":open("$OUT/notes.txt").read()[:1500] if __import__("os").path.exists("$OUT/notes.txt") else ""}
json.dump(meta,open("$OUT/meta.json","w"),indent=1)
print(json.dumps({k:meta[k] for k in ("property","demo_exit_with_change","demo_exit_without_change","test_suite_with_change","check_exit","check_violation_lines")}))
PY
