#!/bin/bash
# second-wave seeds live in /tmp/w4_<ID>; archived under seeded/<ID>-4
ID="$1"; WT=/tmp/w4_$ID; OUT=/verif/seeded/$ID-4
cd $WT || exit 2
[ -s patch.diff ] || { echo "no patch.diff"; exit 2; }
export PYTHONPATH=$WT/src
git checkout -q -- src && git apply patch.diff || { echo "patch does not apply"; exit 2; }
timeout 600 /venv/bin/python demo_$ID.py > /tmp/seed4_$ID.demo_with.log 2>&1; RC_WITH=$?
timeout 1500 /venv/bin/python -m pytest -q -p no:cacheprovider --timeout=900 --continue-on-collection-errors > /tmp/seed4_$ID.tests.log 2>&1
TESTS=$(tail -1 /tmp/seed4_$ID.tests.log)
git apply -R patch.diff
timeout 600 /venv/bin/python demo_$ID.py > /tmp/seed4_$ID.demo_without.log 2>&1; RC_WITHOUT=$?
unset PYTHONPATH
mkdir -p $OUT; cp patch.diff demo_$ID.py $OUT/; cp notes.txt $OUT/notes.txt 2>/dev/null
cd /verif
CHK=/tmp/chk4_$ID
git -C /repo worktree remove --force $CHK 2>/dev/null
git -C /repo worktree add -q $CHK HEAD
(cd $CHK && git apply $OUT/patch.diff) || echo "patch does not apply to current HEAD"
VERIF_REPO_SRC=$CHK/src timeout 3000 bin/check $ID --no-evidence > /tmp/seed4_$ID.check.log 2>&1; RC_CHECK=$?
git -C /repo worktree remove --force $CHK
NV=$(grep -c '^VIOLATION' /tmp/seed4_$ID.check.log)
python3 - <<PY
import json,os
meta={"property":"$ID","wave":4,"patch":"patch.diff","demo":"demo_$ID.py","demo_exit_with_change":$RC_WITH,"demo_exit_without_change":$RC_WITHOUT,
 "test_suite_with_change":"""$TESTS""","check_cmd":"git -C /repo apply seeded/$ID-4/patch.diff && bin/check $ID; git -C /repo checkout -- .",
 "check_exit":$RC_CHECK,"check_violation_lines":$NV,"detected":($RC_CHECK==1 and $NV>0),
 "needs_to_manifest":open("$OUT/notes.txt").read()[:1500] if os.path.exists("$OUT/notes.txt") else ""}
json.dump(meta,open("$OUT/meta.json","w"),indent=1)
print(json.dumps({k:meta[k] for k in ("property","demo_exit_with_change","demo_exit_without_change","test_suite_with_change","check_exit","check_violation_lines")}))
PY
