#!/usr/bin/env python3
"""Regenerate /verif/MANIFEST.json from props/*.py metadata (MANIFEST dict in each module,
parsed textually so that no WallGo import is needed) and tools/not_applicable.json."""
import ast, json, os, re, sys
V = os.path.dirname(os.path.dirname(os.path.abspath(__file__)))
props = [json.loads(l)["id"] for l in open(os.path.join(V, "properties.jsonl"))]
na = json.load(open(os.path.join(V, "tools", "not_applicable.json")))
checks = []
claimed = []
for pid in props:
    p = os.path.join(V, "props", pid.lower() + ".py")
    if not os.path.exists(p):
        continue
    tree = ast.parse(open(p).read())
    meta = None
    for node in tree.body:
        if isinstance(node, ast.Assign) and getattr(node.targets[0], "id", "") == "MANIFEST":
            meta = ast.literal_eval(node.value)
    if meta is None:
        continue
    claimed.append(pid)
    checks.append({
        "property_id": pid,
        "quick_cmd": f"bin/check {pid} --tier quick",
        "thorough_cmd": f"bin/check {pid} --tier thorough",
        "evidence_file": f"/verif/evidence/{pid}.json",
        "replay_cmd_template": f"bin/check {pid} --replay {{path}}",
        "engine": "symx",
        "level_claimed": {"category": "other", "text": meta["text"], "design_ref": meta.get("design_ref", f"DESIGN.md section 3 ({pid})")},
        "level_note": meta["note"],
        "technique": meta.get("technique", "bounded symbolic execution of the real Python functions on z3 reals (numpy object arrays), SMT discharge per path and obligation, concrete replay of every model"),
    })
man = {
    "version": 1,
    "setup_cmd": "bin/ensure-env",
    "hooks": {"guard": "WALLGO_VERIF", "enable": "export WALLGO_VERIF=1 (bin/check sets it); hooks are plain Python `if os.environ.get('WALLGO_VERIF')` blocks",
              "baseline_off_cmd": "cd /repo && env -u WALLGO_VERIF /venv/bin/python -m pytest -ra -q -p no:cacheprovider --timeout=900 --continue-on-collection-errors",
              "source_commits": json.load(open(os.path.join(V, "tools", "hook_commits.json"))), "add_only": True},
    "engines": [{"name": "symx", "path": "/verif/symx", "serves_properties": claimed,
                 "kind_free_text": "dynamic symbolic execution of the real WallGo functions: z3 Real terms inside numpy object arrays, eager forking comparisons with DFS re-execution, contract stubs for scipy iterations, per-path SMT obligations (z3 5.1), concrete replay of every counterexample against the unpatched code"}],
    "checks": checks,
    "not_applicable": [{"property_id": k, "reason": v} for k, v in na.items() if k not in claimed],
    "notes": "Every claim is bounded (see evidence coverage.bounds / outside_claim and DESIGN.md). Exit 3 = harness error or inconclusive obligation (never with a VIOLATION line).",
}
missing = [p for p in props if p not in claimed and p not in na]
if missing:
    sys.exit(f"properties neither claimed nor not_applicable: {missing}")
json.dump(man, open(os.path.join(V, "MANIFEST.json"), "w"), indent=1)
print("claimed", claimed, "n/a", [x["property_id"] for x in man["not_applicable"]])
