"""Developer helper: run ONE (harness, case) of a property module in-process and print the job statistics.

  WALLGO_VERIF=1 PYTHONPATH=/repo/src:/verif .venv/bin/python tools/dev_run_harness.py c15 template-maxAl 60 60 "dict(part='sentinels')"

arguments: <module> <harness> <max_paths> <timeout_s> [case as a python expression]; mode `conc`/`fold`
instead of a path bound runs the harness once in that mode (default point) and prints the obligations.
"""
import importlib
import logging
import sys
import time
import warnings

warnings.filterwarnings("ignore")
sys.path.insert(0, "/verif")
logging.disable(logging.CRITICAL)
from symx import harness as HN  # noqa: E402

C = importlib.import_module("props." + sys.argv[1])
if hasattr(C, "_late"):
    C._late()
hdef = {h.name: h for h in C.HARNESSES}[sys.argv[2]]
if sys.argv[3] in ("conc", "fold"):
    case = eval(sys.argv[4]) if len(sys.argv) > 4 else hdef.cases_quick[0]
    h, oc = HN._run_mode(hdef, case, sys.argv[3], None, 0)
    print(oc[0], str(oc[1])[:300])
    print(h.values)
    print([(o[0][:70], o[1]) for o in h.obligations])
    sys.exit(0)
hdef.max_paths = int(sys.argv[3])
hdef.timeout_s = int(sys.argv[4])
case = eval(sys.argv[5]) if len(sys.argv) > 5 else hdef.cases_quick[0]
t = time.time()
st = HN.run_job(hdef, case, tier="quick")
print(round(time.time() - t, 1), "s")
for k in ("paths", "aborted", "obligations", "unsat", "sat_replayed", "sat_spurious", "unknown", "solver_s",
          "queries", "inconclusive", "errors"):
    print(k, st[k] if not isinstance(st[k], list) else st[k][:6])
print([(v["obligation"], v["detail"][:60]) for v in st["violations"]][:5])
