#!/bin/bash
# tools/mutant.sh <patch.diff> <ID> [extra check args]: apply a patch to /repo, run the check, undo.
set -u
P="$1"; ID="$2"; shift 2
git -C /repo apply "$P" || { echo "patch does not apply"; exit 2; }
/verif/bin/check "$ID" --no-evidence "$@" 2>&1 | grep -E "^(VIOLATION|KNOWN|HARNESS-ERROR|INCONCLUSIVE|C[0-9]+ tier)" | head -${LINES_MAX:-12}
git -C /repo checkout -- .
