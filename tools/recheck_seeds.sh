#!/bin/bash
# re-run the current checks against archived seeds: tools/recheck_seeds.sh <out-file> <seed-dir>...
# (each seed is applied to a scratch worktree of /repo HEAD under /tmp, removed afterwards)
OUT="$1"; shift
cd /verif
for d in "$@"; do
  name=$(basename "$d"); id=${name:0:3}; wt=/tmp/rv_$name
  git -C /repo worktree remove --force "$wt" 2>/dev/null
  git -C /repo worktree add -q --detach "$wt" HEAD || { echo "$name worktree-failed" >> "$OUT"; continue; }
  if (cd "$wt" && git apply "/verif/seeded/$name/patch.diff"); then
    VERIF_REPO_SRC=$wt/src timeout 3000 bin/check "$id" --no-evidence > "/tmp/rv_$name.log" 2>&1; rc=$?
    echo "$name exit=$rc violations=$(grep -c '^VIOLATION' /tmp/rv_$name.log)" >> "$OUT"
  else
    echo "$name patch-does-not-apply" >> "$OUT"
  fi
  git -C /repo worktree remove --force "$wt"
done
