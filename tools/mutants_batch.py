#!/usr/bin/env python3
"""tools/mutants_batch.py: apply each (file, old, new, property) mutant in a scratch worktree of
/repo HEAD and run the property's quick check against it (VERIF_REPO_SRC); prints one line each."""
import subprocess, sys, os, json, shutil
M = [
 # id, property, file, old, new
 ("h1","C02","hydrodynamics.py","c1 = -wHighT * gammaSq(vp) * vp","c1 = -wHighT * gammaSq(vm) * vp"),
 ("h2","C02","hydrodynamics.py","velocityMid = -0.5 * (vm + vp)  # NOTE","velocityMid = -0.5 * (vm - vp)  # NOTE"),
 ("h3","C05","hydrodynamics.py","vpsq = (Tpm[1] ** 2 - Tpm[0] ** 2 * (1 - vmsq)) / Tpm[1] ** 2","vpsq = (Tpm[1] ** 2 - Tpm[0] ** 2 * (1 - vmsq)) / Tpm[0] ** 2"),
 ("h4","C05","hydrodynamics.py","        if shockTnuclDiffMin < 0:  # vw is smaller than vmin, we return 0.","        if shockTnuclDiffMin > 0:  # vw is smaller than vmin, we return 0."),
 ("h5","C03","hydrodynamics.py","eq2 = T * gammaSq(v) * boostVelocity(xi, v)","eq2 = T * gammaSq(xi) * boostVelocity(xi, v)"),
 ("h6","C03","hydrodynamics.py","            return float(boostVelocity(xi, v) * xi - self.thermodynamics.csqHighT(T))\n\n        shock.terminal = True\n\n        xi0T0 = [vw, Tp]\n        vpcent","            return float(boostVelocity(xi, v) * v - self.thermodynamics.csqHighT(T))\n\n        shock.terminal = True\n\n        xi0T0 = [vw, Tp]\n        vpcent"),
 ("h7","C06","hydrodynamics.py","dnum2 = self.thermodynamics.deLowT(tm)","dnum2 = self.thermodynamics.dpLowT(tm)"),
 ("h8","C06","hydrodynamics.py","        if TpTm(1)[1] > self.TMaxLowT:\n            return 1","        if TpTm(1)[1] < self.TMaxLowT:\n            return 1"),
 ("h9","C15","hydrodynamicsTemplateModel.py","dwdv = w * (1 + 1 / csq) * muXiV / (1 - v**2)","dwdv = w * (1 + csq) * muXiV / (1 - v**2)"),
 ("h10","C15","hydrodynamicsTemplateModel.py","return vpSW / vmSW - ((self.mu - 1) * wmSW + 1) / ((self.mu - 1) + wmSW)","return vpSW / vmSW - ((self.mu - 1) * wmSW + 1) / ((self.mu + 1) + wmSW)"),
 ("h11","C06","hydrodynamicsTemplateModel.py","vm = (part + np.sqrt(part**2 - 4 * self.cb2 * vp**2)) / (2 * vp)","vm = (part - np.sqrt(part**2 - 4 * self.cb2 * vp**2)) / (2 * vp)"),
 ("e1","C01","equationOfMotion.py","            xtol=self.errTol,\n        )\n        wallVelocity = optimizeResult.root","            xtol=self.errTol * 10,\n        )\n        wallVelocity = optimizeResult.root"),
 ("e2","C01","equationOfMotion.py","        results.setHydroResults(hydroResults)\n        results.setWallParams(wallParams)","        results.setHydroResults(hydroResultsMax)\n        results.setWallParams(wallParams)"),
 ("e3","C01","equationOfMotion.py","        elif not self.successWallPressure:\n            results.setSuccessState(\n                False,","        elif not self.successWallPressure and False:\n            results.setSuccessState(\n                False,"),
 ("e4","C04","equationOfMotion.py","        if abs(self.hydrodynamics.Tnucl - Tplus) < 1e-10:\n            TMultiplier = min(Tminus / tempAtMinimum, 0.8)","        if abs(self.hydrodynamics.Tnucl - Tplus) > 1e-10:\n            TMultiplier = min(Tminus / tempAtMinimum, 0.8)"),
 ("e5","C13","equationOfMotion.py","ubar0 = u3","ubar0 = u0"),
 ("e6","C09","equationOfMotion.py","(vevHighT - vevLowT) ** 2 / (6 * wallWidths)","(vevHighT - vevLowT) ** 2 / (3 * wallWidths)"),
 ("e7","C08","equationOfMotion.py","np.max((1 - offsets) * widths) - np.min((-1 - offsets) * widths)\n        ) / 2","np.max((1 - offsets) * widths) - ((-1 - offsets) * widths)[0]\n        ) / 2"),
 ("t1","C10","thermodynamics.py","        self.epsilonMinLowT = 1 / 3.0 * self.aMinLowT * pow(","        self.epsilonMinLowT = 1 / 4.0 * self.aMinLowT * pow("),
 ("t2","C10","thermodynamics.py","        return temperature * self.ddpLowT(temperature)","        return temperature * self.ddpHighT(temperature)"),
 ("t3","C11","thermodynamics.py","            bracket=(T, T + TStep),","            bracket=(T - TStep, T),"),
 ("f1","C11","freeEnergy.py","        self.minPossibleTemperature[0] = min(TFullList) + 2 * dT","        self.minPossibleTemperature[0] = min(TFullList) - 2 * dT"),
 ("f2","C11","freeEnergy.py","        if max(TFullList) < TMax:\n            self.maxPossibleTemperature[1] = True","        if max(TFullList) < TMax:\n            self.minPossibleTemperature[1] = True"),
 ("b1","C12","boltzmann.py","            dMsqdChi = msqPoly.derivative(1).coefficients[:, 1:-1, None, None]","            dMsqdChi = msqPoly.derivative(1).coefficients[:, :-2, None, None]"),
 ("b2","C12","containers.py","        self.velocityWall = boostVelocity(self.velocityWall, self.velocityMid)","        self.velocityWall = boostVelocity(self.velocityMid, self.velocityWall)"),
 ("b3","C13","boltzmann.py","        integrand = dpzdrz * dppdrp * pp / (4 * np.pi**2 * energy)\n\n        Delta00","        integrand = dpzdrz * dppdrp * pz / (4 * np.pi**2 * energy)\n\n        Delta00"),
 ("p1","C16","polynomial.py","                if self.endpoints[i]:\n                    weights[0] /= 2\n                    weights[-1] /= 2","                if self.endpoints[i]:\n                    weights[0] /= 2"),
 ("p2","C16","polynomial.py","            n = np.arange(2 - 2 * endpoints, grid.size) # pylint: disable=invalid-name\n            restriction = \"full\"\n        elif direction == \"pz\":","            n = np.arange(2 - 2 * endpoints, grid.size) # pylint: disable=invalid-name\n            restriction = \"partial\"\n        elif direction == \"pz\":"),
 ("g1","C17","grid.py","pzCompact = np.tanh(pz / 2 / self.momentumFalloffT)","pzCompact = np.tanh(pz / self.momentumFalloffT)"),
 ("g2","C17","grid.py","dppdppCompact = self.momentumFalloffT / (1 - ppCompact)","dppdppCompact = self.momentumFalloffT / (1 + ppCompact)"),
 ("i1","C18","interpolatableFunction.py","            xLower = x <= self._rangeMin\n            xUpper = x >= self._rangeMax","            xLower = x <= self._rangeMin\n            xUpper = x > self._rangeMax + 1"),
 ("i2","C18","interpolatableFunction.py","                    case EExtrapolationType.CONSTANT:\n                        res[xUpper] = self.evaluateInterpolation(self._rangeMax)","                    case EExtrapolationType.CONSTANT:\n                        res[xUpper] = self.evaluateInterpolation(self._rangeMin)"),
 ("c1","C14","collisionArray.py","                        collisionFileArray[i, :, :, j, :, :] = collisionDataset","                        collisionFileArray[j, :, :, i, :, :] = collisionDataset"),
 ("d1","C19","helpers.py","    \"4\": np.array([-1, 1, 16, -16, -16, 16, 1, -1], dtype=float) / 48,","    \"4\": np.array([-1, 1, 16, -16, -16, 16, 1, -1], dtype=float) / 44,"),
 ("n1","C20","PotentialTools/effectivePotentialNoResum.py","        potential = potential * temperature**4 / (2 * np.pi * np.pi)","        potential = potential * temperature**4 / (4 * np.pi * np.pi)"),
]
only = sys.argv[1:] 
res = []
for mid, prop, f, old, new in M:
    if only and mid not in only and prop not in only:
        continue
    wt = f"/tmp/mw_{mid}"
    subprocess.run(["git","-C","/repo","worktree","remove","--force",wt],capture_output=True)
    subprocess.run(["git","-C","/repo","worktree","add","-q",wt,"HEAD"],check=True,capture_output=True)
    p = f"{wt}/src/WallGo/{f}"
    s = open(p).read()
    if s.count(old) < 1:
        print(mid, prop, "PATTERN-NOT-FOUND"); subprocess.run(["git","-C","/repo","worktree","remove","--force",wt]); continue
    open(p,"w").write(s.replace(old,new,1))
    env = dict(os.environ, VERIF_REPO_SRC=f"{wt}/src")
    r = subprocess.run(["timeout","1500","/verif/bin/check",prop,"--no-evidence"],capture_output=True,text=True,env=env)
    lines = r.stdout.splitlines()
    nv = sum(1 for l in lines if l.startswith("VIOLATION"))
    ninc = sum(1 for l in lines if l.startswith("INCONCLUSIVE") or l.startswith("HARNESS-ERROR"))
    last = [l for l in lines if " tier=" in l][-1:] or [""]
    print(mid, prop, f"exit={r.returncode} violations={nv} inconclusive={ninc}", last[0][-60:], flush=True)
    subprocess.run(["git","-C","/repo","worktree","remove","--force",wt],capture_output=True)
