"""Harness layer: one harness function runs unchanged in three modes

  sym   -- inputs are z3 variables; every feasible path is explored; `prove` queues
           obligations that are discharged by z3 (unsat of constraints AND NOT claim)
  conc  -- plain floats through the unpatched real code (replay of solver models and
           translator validation)
  fold  -- Sym machinery with constant inputs (translator validation: must agree with conc)

See DESIGN.md 1.5.
"""
from __future__ import annotations

import sys as _sys
_sys.setrecursionlimit(max(_sys.getrecursionlimit(), 50000))  # deep left-nested sums (hundreds of terms) are walked recursively
import hashlib
import inspect
import json
import math
import os
import random
import time
import traceback

import numpy as np
import z3

from . import core, npx
from .core import (AND, Cond, Engine, HarnessError, PathAbort, Sym, close, eq, explore, ge, gt,
                   le, lt, toz3)

Fraction = core.Fraction


class NotReproduced(Exception):
    pass


def _num(v) -> float:
    """z3 numeral (rational / algebraic) -> float."""
    if z3.is_rational_value(v):
        f = v.as_fraction()
        try:
            return float(f)
        except OverflowError:
            return math.inf if f > 0 else -math.inf
    if z3.is_algebraic_value(v):
        return _num(v.approx(20))
    s = z3.simplify(v)
    if z3.is_rational_value(s):
        return _num(s)
    raise HarnessError(f"model value not numeric: {v}")


class H:
    """Context handed to a harness function."""

    use_defaults = True

    def __init__(self, mode, values=None, seed=0):
        assert mode in ("sym", "conc", "fold")
        self.mode = mode
        self.values = values or {}
        self.rng = random.Random(seed)
        self.inputs = []  # (name, term-or-None, lo, hi)
        self.nfresh = 0
        self.obligations = []  # sym: (name, z3 bool); conc: (name, bool)
        self.observed = []  # (name, value)
        self.assumptions = []  # texts
        self._patches = []
        self.notes = []
        self.ufun_defaults = {}
        self.ufun_count = {}
        self.pin = {}
        self.events = []  # free-form trace of stub calls (for evidence samples)

    # ---------------------------------------------------------------- mode helpers
    @property
    def symbolic(self):
        return self.mode in ("sym", "fold")

    def _value(self, name, lo, hi, default=None):
        if name in self.values:
            return float(self.values[name])
        if default is not None and self.use_defaults:
            self.values[name] = float(default)
            return float(default)
        if lo is not None and hi is not None and lo > 0 and hi / lo > 100:
            v = math.exp(self.rng.uniform(math.log(lo * 1.5), math.log(hi / 1.5)))
            self.values[name] = v
            return v
        if lo is None and hi is None:
            v = self.rng.uniform(-2, 2)
        elif lo is None:
            v = hi - abs(self.rng.uniform(0.1, 2))
        elif hi is None:
            v = lo + abs(self.rng.uniform(0.1, 2))
        else:
            v = self.rng.uniform(lo + 0.05 * (hi - lo), hi - 0.05 * (hi - lo))
        self.values[name] = v
        return v

    def real(self, name, lo=None, hi=None, strict=True, default=None, sample=None):
        """Input variable in the (open if strict) box (lo, hi).  `sample`: narrower interval for
        random plain-float validation points (where float64 is well conditioned); the solver's
        claim is for the whole box."""
        if name in self.pin:
            # semi-concrete case: this input is fixed (helps the solver FIND models of broken
            # code; the fully symbolic case carries the for-all claim)
            v = float(self.pin[name])
            self.values.setdefault(name, v)
            self.inputs.append((name, None, lo, hi))
            if self.mode == "conc":
                return v
            return Sym(z3.RealVal(core.lift_float(v)))
        if self.mode == "sym":
            t = z3.Real(name)
            e = core.cur()
            if lo is not None:
                e.add_side(t > toz3(lo) if strict else t >= toz3(lo))
            if hi is not None:
                e.add_side(t < toz3(hi) if strict else t <= toz3(hi))
            self.inputs.append((name, t, lo, hi))
            return Sym(t)
        if sample is not None and name not in self.values and not (default is not None and self.use_defaults):
            self.values[name] = self.rng.uniform(*sample)
        v = self._value(name, lo, hi, default)
        self.inputs.append((name, None, lo, hi))
        if self.mode == "fold":
            return Sym(z3.RealVal(Fraction(v)))
        return v

    def reals(self, prefix, shape, lo=None, hi=None, strict=True, sample=None):
        a = np.empty(shape, dtype=object if self.symbolic else float)
        for idx in np.ndindex(*a.shape):
            a[idx] = self.real(prefix + "_" + "_".join(map(str, idx)), lo, hi, strict, sample=sample)
        return a

    def fresh(self, name, lo=None, hi=None, strict=True, default=None):
        """A value returned by a stub (oracle value): named by call order."""
        self.nfresh += 1
        return self.real(f"{name}#{self.nfresh}", lo, hi, strict, default)

    def choice(self, name, n):
        """Nondeterministic integer in range(n) (explored exhaustively in sym mode)."""
        self.nfresh += 1
        key = f"{name}#{self.nfresh}"
        if self.mode == "sym":
            t = z3.Real(key)
            e = core.cur()
            e.add_side(z3.Or([t == i for i in range(n)]))
            self.inputs.append((key, t, 0, n - 1))
            for i in range(n - 1):
                if e.branch(t == i):
                    return i
            return n - 1
        if key in self.values:
            v = int(round(float(self.values[key])))
        else:
            v = self.rng.randrange(n)
            self.values[key] = v
        self.inputs.append((key, None, 0, n - 1))
        return v

    def flag(self, name):
        return bool(self.choice(name, 2))

    def lazy_flag(self, name):
        """A boolean written by a stub whose value is only decided (forked on) when the code
        under test actually reads it."""
        self.nfresh += 1
        key = f"{name}#{self.nfresh}"
        if self.mode == "sym":
            t = z3.Real(key)
            core.cur().add_side(z3.Or(t == 0, t == 1))
            self.inputs.append((key, t, 0, 1))
            return LazyBool(t)
        if key in self.values:
            v = bool(round(float(self.values[key])))
        else:
            v = bool(self.rng.randrange(2))
            self.values[key] = float(v)
        self.inputs.append((key, None, 0, 1))
        return v

    def ufun(self, name, default):
        """Uninterpreted model function (EOS, potential...).  sym: z3 UF application;
        conc/fold: the model's value for the k-th application if replaying, else
        `default(*args)`."""
        arity = len(inspect.signature(default).parameters)
        uf = z3.Function(name, *([core.R] * (arity + 1)))

        def call(*args):
            args = [core.unbox(a) for a in args]
            if self.mode == "sym":
                e = core.cur()
                n0 = len(e.apps.get(name, []))
                t = e.app(uf, *[toz3(a) for a in args])
                if len(e.apps.get(name, [])) > n0:
                    self.inputs.append((f"{name}@{n0}", t, None, None))
                return Sym(t)
            fargs = [a for a in args]
            k = self.ufun_count.get(name, 0)
            # functional consistency: same arguments -> same value
            keyargs = tuple(round(float(_symval(a)), 14) for a in fargs)
            cache = self.ufun_defaults.setdefault(name, {})
            if keyargs in cache:
                v = cache[keyargs]
            else:
                key = f"{name}@{k}"
                self.ufun_count[name] = k + 1
                if key in self.values:
                    v = float(self.values[key])
                else:
                    v = float(default(*[float(_symval(a)) for a in fargs]))
                cache[keyargs] = v
            if self.mode == "fold":
                return Sym(z3.RealVal(Fraction(v)))
            return v
        return call

    # ---------------------------------------------------------------- assume / prove
    def assume(self, cond, text=None):
        cond = core._lift_cond(cond)
        if text and text not in self.assumptions:
            self.assumptions.append(text)
        if cond.symbolic:
            core.cur().assume(cond.z)
        elif not cond.b:
            raise PathAbort("assumption false")

    def prove(self, name, cond, conc=None, drop_pc=False, subst=None, extra=None):
        """Queue/evaluate a claim.  `conc`: optional callable evaluated instead of `cond` in
        conc mode (e.g. a finite-difference check for derivative claims).  `drop_pc`: discharge
        under the side constraints only (used for limit/continuity claims obtained by
        substituting into a branch formula)."""
        if self.mode == "conc" and conc is not None:
            self.obligations.append((name, bool(conc())))
            return
        if cond is None:
            return
        cond = core._lift_cond(cond)
        if self.mode == "sym":
            # subst: change of variables [(z3 var, z3 term)] applied to claim and constraints
            # before the query (with `extra` constraints on the new variables); the harness
            # must separately establish that the change of variables is onto.
            self.obligations.append((name, cond.term(),
                                     {"drop_pc": drop_pc, "subst": subst, "extra": extra or []}))
        elif self.mode == "fold":
            t = z3.simplify(cond.term())
            if z3.is_true(t) or z3.is_false(t):
                self.obligations.append((name, z3.is_true(t)))
            else:
                # constant folding left a residue (sqrt/UF var): decide with the solver
                e = core.cur()
                s = z3.Solver()
                s.set("timeout", 5000)
                s.add(e.constraints())
                s.add(z3.Not(t))
                self.obligations.append((name, str(s.check()) == "unsat"))
        else:
            self.obligations.append((name, cond.value()))

    def prove_eq(self, name, a, b, conc_scale=None, conc_rtol=1e-8):
        """Exact equality over the reals (sym); in conc mode equality up to float rounding:
        |a-b| <= conc_rtol * (conc_scale or max(1,|a|,|b|))."""
        a = core.unbox(np.asarray(a)) if not isinstance(a, Sym) else a
        b = core.unbox(np.asarray(b)) if not isinstance(b, Sym) else b
        if self.mode == "conc":
            s = conc_scale if conc_scale is not None else max(1.0, abs(a), abs(b))
            self.prove(name, Cond(b=bool(abs(a - b) <= conc_rtol * max(s, abs(a), abs(b)))))
        elif self.mode == "fold":
            s = _symval(conc_scale) if conc_scale is not None else 1.0
            self.prove(name, close(a, b, rtol=conc_rtol, atol=conc_rtol * s))
        else:
            self.prove(name, eq(a, b))

    def prove_all_eq(self, name, A, B, conc_scale=None, conc_rtol=1e-8):
        A = np.asarray(A)
        B = np.asarray(B)
        if A.shape != B.shape:
            self.prove(name + ":shape", Cond(b=False))
            return
        for i in np.ndindex(*A.shape):
            self.prove_eq(name + (str(list(i)) if A.ndim else ""), A[i], B[i], conc_scale, conc_rtol)

    def prove_close(self, name, a, b, rtol=1e-9, atol=0.0, scale=None):
        self.prove(name, close(a, b, rtol=rtol, atol=atol, scale=scale))

    def prove_all_close(self, name, A, B, rtol=1e-9, atol=0.0, scale=None):
        A = np.asarray(A)
        B = np.asarray(B)
        if A.shape != B.shape:
            self.prove(name + ":shape", Cond(b=False))
            return
        cs = [close(A[i], B[i], rtol=rtol, atol=atol, scale=scale) for i in np.ndindex(*A.shape)]
        self.prove(name, AND(*cs) if cs else Cond(b=True))

    def observe(self, name, value):
        value = np.asarray(value)
        for idx in np.ndindex(*value.shape):
            self.observed.append((f"{name}{list(idx)}#{len(self.observed)}", value[idx]))

    def event(self, *what):
        self.events.append(" ".join(str(w) for w in what))

    def unreachable(self, name):
        self.prove(name, Cond(b=False))

    # ---------------------------------------------------------------- patching
    def patch(self, module, **names):
        """Patch globals of a real module (sym/fold mode only; conc runs unpatched unless
        always=True is among names)."""
        always = names.pop("always", False)
        if self.mode == "conc" and not always:
            return
        for k, v in names.items():
            self._patches.append((module, k, getattr(module, k, _MISSING)))
            setattr(module, k, v)

    def patch_numeric(self, module):
        """Standard patch: `float` -> symfloat, `np` -> proxy."""
        kw = {}
        kw["float"] = npx.symfloat
        if hasattr(module, "np"):
            kw["np"] = npx.NP()
        self.patch(module, **kw)

    def patch_always(self, module, **names):
        self.patch(module, always=True, **names)

    def undo_patches(self):
        for module, k, old in reversed(self._patches):
            if old is _MISSING:
                try:
                    delattr(module, k)
                except AttributeError:
                    pass
            else:
                setattr(module, k, old)
        self._patches = []


_MISSING = object()


class LazyBool:
    __slots__ = ("t",)

    def __init__(self, t):
        self.t = t

    def __bool__(self):
        return core.cur().branch(self.t == 1)

    def term(self):
        return self.t == 1



def _symval(a):
    """float value of a constant Sym / float."""
    if isinstance(a, Sym):
        return _num(z3.simplify(a.t))
    return float(a)


# ======================================================================================
# running a harness


class HarnessDef:
    def __init__(self, name, fn, cases_quick, cases_thorough=None, max_paths=200,
                 timeout_s=60, timeout_s_thorough=None, axioms=(), encodes=(), doc="",
                 random_validation=3, finding_tags=None, concrete_alarms=True, feas_timeout_ms=1500,
                 validation_rtol=1e-6):
        self.name = name
        self.fn = fn
        self.cases_quick = cases_quick
        self.cases_thorough = cases_thorough if cases_thorough is not None else cases_quick
        self.max_paths = max_paths
        self.timeout_s = timeout_s
        self.timeout_s_thorough = timeout_s_thorough or 5 * timeout_s
        self.axioms = list(axioms)
        self.encodes = list(encodes)  # real functions executed (for evidence)
        self.doc = doc
        self.random_validation = random_validation
        self.finding_tags = finding_tags or {}
        # concrete_alarms: a failing obligation in a plain-float run at a random point is
        # reported as a violation.  Only for harnesses without iteration stubs: with stubs the
        # random concrete run uses the real scipy, whose approximate / degenerate answers are
        # outside the contract the solver reasons under.
        self.concrete_alarms = concrete_alarms
        self.feas_timeout_ms = feas_timeout_ms
        # conc (float64) vs fold (exact rationals) agreement: ill-conditioned kernels such as
        # finite differences with tiny steps need a looser bound (rounding ~ eps/dx^n)
        self.validation_rtol = validation_rtol


def _run_mode(hdef, case, mode, values=None, seed=0, use_defaults=True):
    """Run the harness once in conc / fold mode.  Returns (h, outcome)."""
    h = H(mode, values=dict(values or {}), seed=seed)
    h.use_defaults = use_defaults
    h.pin = dict(case.get("_pin", {}))
    case = {k: v for k, v in case.items() if not k.startswith("_")}
    outcome = None
    if mode == "fold":
        e = Engine(timeout_ms=5000)
        e.fold = True
        e.axiom_hooks = list(hdef.axioms)
        Engine.cur = e
    try:
        try:
            r = hdef.fn(h, **case)
            outcome = ("ok", r)
        except PathAbort as ex:
            outcome = ("abort", str(ex))
        except (ZeroDivisionError, FloatingPointError) as ex:
            # a solver model may sit on a pole that real division turns into an exception
            # while z3's total division does not: not a replay of the symbolic path
            outcome = ("abort", f"arithmetic singularity: {ex}") if mode == "conc" else \
                ("raise", ex, traceback.format_exc(limit=6))
        except Exception as ex:  # noqa: BLE001
            outcome = ("raise", ex, traceback.format_exc(limit=6))
    finally:
        h.undo_patches()
        if mode == "fold":
            Engine.cur = None
    return h, outcome


def _model_values(model, h, engine, subst=None, pur=None):
    vals = {}
    for name, t, _lo, _hi in h.inputs:
        if t is None:
            continue
        if pur is not None:
            t = pur(t)
        if subst:
            t = z3.substitute(t, *subst)
        v = model.eval(t, model_completion=True)
        try:
            vals[name] = _num(v)
        except HarnessError:
            pass
    return vals


def _values_from_point(pt, h, pur):
    """input values from a numeric point {purified z3 var: float}"""
    from . import numsearch
    variables = list(pt.keys())
    comp = numsearch._Comp(variables)
    x = [pt[v] for v in variables]
    vals = {}
    for name, t, lo, hi in h.inputs:
        if t is None:
            continue
        try:
            vals[name] = float(comp.num(pur(t))(x))
        except Exception:  # noqa: BLE001 - variable not in the formula: any admissible value
            if lo is not None and hi is not None:
                vals[name] = 0.5 * (float(lo) + float(hi))
            elif lo is not None:
                vals[name] = float(lo) + 1.0
            elif hi is not None:
                vals[name] = float(hi) - 1.0
            else:
                vals[name] = 0.0
    return vals


def _block(model, h):
    lits = []
    for name, t, _lo, _hi in h.inputs:
        if t is None or not z3.is_const(t):
            continue
        v = model.eval(t, model_completion=True)
        lits.append(t != v)
    return z3.Or(lits) if lits else z3.BoolVal(False)


def run_job(hdef, case, tier="quick", seed=0, replay_budget=6):
    """Symbolic exploration + discharge + replay + validation of one (harness, case)."""
    t0 = time.time()
    job_budget = float(os.environ.get("VERIF_JOB_BUDGET_S", "480" if tier == "quick" else "3000"))
    timeout_s = hdef.timeout_s if tier == "quick" else hdef.timeout_s_thorough
    stats = {
        "harness": hdef.name, "case": _case_repr(case), "paths": 0, "aborted": 0,
        "obligations": 0, "unsat": 0, "sat_replayed": 0, "sat_spurious": 0, "unknown": 0,
        "solver_s": 0.0, "queries": 0, "violations": [], "inconclusive": [], "errors": [],
        "bound_hit": False, "vacuity_sat": 0, "validated_points": 0, "samples": [],
        "assumptions": [], "distinct": set(), "lifted_constants": 0,
    }
    hs = []

    def body():
        h = H("sym", seed=seed)
        h.pin = dict(case.get("_pin", {}))
        hs.append(h)
        try:
            return hdef.fn(h, **{k: v for k, v in case.items() if not k.startswith("_")})
        finally:
            h.undo_patches()

    def setup(e):
        e.axiom_hooks = list(hdef.axioms)
        e.full_timeout_ms = hdef.feas_timeout_ms
        e.full_rlimit = int(hdef.feas_timeout_ms * 2000)

    try:
        results, info = explore(body, max_paths=hdef.max_paths,
                                timeout_ms=int(min(timeout_s, 30) * 1000), engine_setup=setup,
                                deadline=t0 + 0.6 * job_budget)
    except HarnessError as ex:
        stats["errors"].append(f"harness error: {ex}")
        stats["wall_s"] = time.time() - t0
        stats["distinct"] = []
        return stats
    stats["paths"] = info["paths"]
    stats["aborted"] = info["aborted"]
    stats["bound_hit"] = info["bound_hit"]
    stats["solver_s"] += info["solver_time"]
    stats["queries"] += info["queries"]
    if info["bound_hit"]:
        stats["inconclusive"].append(f"path bound {hdef.max_paths} hit")

    # explore() appends one H per executed path, in order, including aborted ones; map
    # engines to their H through identity recorded on the engine
    eng_h = {}
    k = 0
    # every call of body() created an H; results keep order of completion, aborted paths
    # have no result.  We tag engines instead:
    for h in hs:
        pass
    # (engine, outcome) order equals execution order minus aborted; recover by replaying
    # the bookkeeping: each H stores the engine it ran under.
    for h in hs:
        eng = getattr(h, "_engine", None)
        if eng is not None:
            eng_h[id(eng)] = h

    seen_obl = set()
    for e, outcome in results:
        h = eng_h.get(id(e))
        if h is None:
            stats["errors"].append("internal: engine without harness context")
            continue
        for a in h.assumptions:
            if a not in stats["assumptions"]:
                stats["assumptions"].append(a)
        pur = Purifier()
        raw_side = list(e.side)
        cons = [pur(c) for c in e.constraints()]
        pside = [pur(c) for c in raw_side]
        axioms = [pur(a) for a in e.current_axioms()]
        axioms += pur.take_consistency()
        solver = z3.Solver()
        solver.set("timeout", int(min(timeout_s, 10) * 1000))
        solver.set("rlimit", int(min(timeout_s, 10) * 4e6))
        solver.add(cons)
        solver.add(axioms)
        # ---- vacuity twin: the path itself must be satisfiable
        t = time.time()
        r = core.timed_check(solver, min(timeout_s, 10) * 1.2)
        stats["solver_s"] += time.time() - t
        stats["queries"] += 1
        path_model = None
        if r == "sat":
            stats["vacuity_sat"] += 1
            path_model = solver.model()
            path_model_pur = pur
        elif r == "unsat":
            # branch feasibility said maybe (unknown) earlier; path is dead
            stats["aborted"] += 1
            continue
        else:
            # fall back to a concrete witness that the assumption set is satisfiable
            wit = False
            for k in range(5):
                hc, oc = _run_mode(hdef, case, "conc", None, seed * 77 + k)
                if oc[0] == "ok":
                    wit = True
                    break
            if wit:
                stats["vacuity_concrete_witness"] = stats.get("vacuity_concrete_witness", 0) + 1
            else:
                stats["inconclusive"].append(f"path reachability unknown ({hdef.name})")
        # ---- unexpected exception escaping the harness
        if outcome[0] == "raise":
            ex = outcome[1]
            rep = None
            if path_model is not None:
                vals = _model_values(path_model, h, e, None, pur)
                hc, oc = _run_mode(hdef, case, "conc", vals, seed)
                if oc[0] == "raise" and type(oc[1]).__name__ == type(ex).__name__:
                    rep = vals
            name = f"no-unexpected-exception:{type(ex).__name__}"
            if rep is not None:
                stats["violations"].append({
                    "harness": hdef.name, "case": case, "obligation": name,
                    "values": rep, "detail": f"{type(ex).__name__}: {ex}"})
            else:
                stats["errors"].append(
                    f"{hdef.name}{_case_repr(case)}: exception on symbolic path not reproduced "
                    f"concretely: {type(ex).__name__}: {ex}")
        # ---- obligations
        for name, claim, opts in h.obligations:
            if time.time() - t0 > job_budget:
                stats["inconclusive"].append(f"{hdef.name}{_case_repr(case)}:{name}: job time budget "
                                             f"({int(job_budget)} s) exhausted before this obligation")
                stats["unknown"] += 1
                continue
            drop_pc = opts["drop_pc"]
            subst = opts["subst"]
            raw_claim = claim
            claim = z3.simplify(pur(claim))
            extra_cons = pur.take_consistency()
            if z3.is_true(claim):
                stats["concrete_true"] = stats.get("concrete_true", 0) + 1
                if _vars(raw_claim, {}):
                    # an identity between symbolic terms settled by z3's term normalisation
                    stats["folded_symbolic"] = stats.get("folded_symbolic", 0) + 1
                    stats["distinct"].add(hashlib.sha1((name + raw_claim.sexpr()[:2000]).encode()).hexdigest())
                continue
            key = hashlib.sha1((name + "|" + "|".join(c.sexpr() for c in cons) + "|" +
                                claim.sexpr()).encode()).hexdigest()
            if key in seen_obl:
                continue
            seen_obl.add(key)
            stats["obligations"] += 1
            stats["distinct"].add(hashlib.sha1((name + claim.sexpr()).encode()).hexdigest())
            # fresh non-incremental solver per obligation: z3's incremental core is far
            # slower on nonlinear real arithmetic than the one-shot nlsat pipeline
            osolver = z3.Solver()
            osolver.set("timeout", int(timeout_s * 1000))
            osolver.set("rlimit", int(timeout_s * 4e6))
            ocons = list(pside if drop_pc else cons)
            oax = list(axioms) + extra_cons
            if subst:
                subst = [(pur(a), pur(b)) for a, b in subst]
                claim = z3.substitute(claim, *subst)
                ocons = [z3.substitute(c, *subst) for c in ocons] + [pur(x) for x in opts["extra"]]
                oax = [z3.substitute(c, *subst) for c in oax]
            base = ocons + oax
            # cone of influence: constraints sharing (transitively) a variable with the claim.
            # Fewer constraints => unsat stays sound; a sat answer is re-checked on the full set.
            coned = _cone(ocons, claim, oax)
            if len(coned) < len(base):
                pre = z3.Solver()
                pre.set("timeout", int(timeout_s * 1000))
                pre.set("rlimit", int(timeout_s * 4e6))
                pre.add(coned)
                pre.add(z3.Not(claim))
                t = time.time()
                r0 = core.timed_check(pre, timeout_s * 1.2)
                stats["solver_s"] += time.time() - t
                stats["queries"] += 1
                if r0 == "unsat":
                    stats["unsat"] += 1
                    stats["cone_reduced"] = stats.get("cone_reduced", 0) + 1
                    if len(stats["samples"]) < 3:
                        stats["samples"].append({
                            "harness": hdef.name, "case": _case_repr(case), "obligation": name,
                            "path_condition": [str(c)[:120] for c in e.pc[:6]],
                            "claim": str(claim)[:300], "verdict": "unsat"})
                    continue
            osolver.add(base)
            osolver.add(z3.Not(claim))
            verdict = None
            # cheap attempt: does the path's own model already falsify the claim?
            if path_model is not None and not subst:
                try:
                    pv = path_model.eval(claim, model_completion=True)
                except z3.Z3Exception:
                    pv = None
                if pv is not None and z3.is_false(pv):
                    vals = _model_values(path_model, h, e, None, pur)
                    hc, oc = _run_mode(hdef, case, "conc", vals, seed)
                    failed = [n for n, ok in hc.obligations if n == name and not ok]
                    if failed and oc[0] != "abort":
                        verdict = "violation"
                        stats["violations"].append({
                            "harness": hdef.name, "case": case, "obligation": name,
                            "values": vals, "detail": "z3 model of the path falsifies the claim; "
                            "reproduced by concrete re-execution"})
                        stats["sat_replayed"] += 1
                        continue
            for _attempt in range(replay_budget):
                t = time.time()
                r = core.timed_check(osolver, timeout_s * 1.2)
                stats["solver_s"] += time.time() - t
                stats["queries"] += 1
                if r == "unsat":
                    verdict = "unsat" if _attempt == 0 else "spurious"
                    break
                if r != "sat":
                    verdict = "unknown"
                    break
                m = osolver.model()
                vals = _model_values(m, h, e, subst, pur)
                hc, oc = _run_mode(hdef, case, "conc", vals, seed)
                failed = [n for n, ok in hc.obligations if n == name and not ok]
                if failed and oc[0] != "abort":
                    verdict = "violation"
                    stats["violations"].append({
                        "harness": hdef.name, "case": case, "obligation": name, "values": vals,
                        "detail": "counterexample from z3 reproduced by concrete re-execution"})
                    break
                osolver.add(_block(m, h))
            else:
                verdict = "spurious"
            if verdict == "unsat":
                stats["unsat"] += 1
            elif verdict == "violation":
                stats["sat_replayed"] += 1
            elif verdict == "spurious":
                stats["sat_spurious"] += 1
                stats["inconclusive"].append(f"{hdef.name}{_case_repr(case)}:{name}: sat models "
                                             "did not reproduce concretely")
            else:
                # the solver could not decide.  (1) numeric model finder on the purified
                # formula; its candidate is replayed like any z3 model and only a reproduced
                # failure counts.
                found = None
                if not subst:
                    try:
                        from . import numsearch
                        pt = numsearch.find_model(base, z3.Not(claim), seed=seed, budget_s=min(8.0, timeout_s))
                    except Exception:  # noqa: BLE001
                        pt = None
                    if pt is not None:
                        vals = _values_from_point(pt, h, pur)
                        hc, oc = _run_mode(hdef, case, "conc", vals, seed)
                        if oc[0] != "abort" and [n for n, ok in hc.obligations if n == name and not ok]:
                            stats["sat_replayed"] += 1
                            stats["violations"].append({
                                "harness": hdef.name, "case": case, "obligation": name, "values": vals,
                                "detail": "z3 returned unknown; candidate model from numeric search on the "
                                          "same formula reproduced by concrete re-execution"})
                            continue
                # (2) random concrete executions as a model finder (harnesses without
                # iteration stubs only)
                for k in range(12 if hdef.concrete_alarms else 0):
                    hc, oc = _run_mode(hdef, case, "conc", None, seed * 131 + k, use_defaults=False)
                    if oc[0] != "abort" and [n for n, ok in hc.obligations if n == name and not ok]:
                        found = dict(hc.values)
                        break
                if found is not None:
                    stats["sat_replayed"] += 1
                    stats["violations"].append({
                        "harness": hdef.name, "case": case, "obligation": name, "values": found,
                        "detail": "solver returned unknown; counterexample found by random "
                                  "concrete execution of the real code"})
                else:
                    stats["unknown"] += 1
                    stats["inconclusive"].append(
                        f"{hdef.name}{_case_repr(case)}:{name}: solver unknown")
            if len(stats["samples"]) < 3:
                stats["samples"].append({
                    "harness": hdef.name, "case": _case_repr(case), "obligation": name,
                    "path_condition": [str(c)[:120] for c in e.pc[:6]],
                    "claim": str(claim)[:300], "verdict": verdict})
        # ---- translator validation on this path's model: conc vs fold
        if path_model is not None and stats["validated_points"] < hdef.random_validation + 2:
            vals = _model_values(path_model, h, e, None, pur)
            _validate(hdef, case, vals, seed, stats)
    # ---- random-point validation (harness without oracle values)
    for i in range(hdef.random_validation):
        _validate(hdef, case, None, seed * 1000 + i, stats, use_defaults=(i == 0))
    stats["wall_s"] = time.time() - t0
    stats["distinct"] = sorted(stats["distinct"])
    stats["lifted_constants"] = core.lift_stats()["lifted"]
    return stats


def _validate(hdef, case, vals, seed, stats, use_defaults=True):
    """conc and fold runs from the same input values must agree on observations, and the
    conc run must satisfy every obligation when the tree is healthy (a failing obligation
    here is a violation found without the solver: it is reported as one, it is real code on
    real floats)."""
    hc, oc = _run_mode(hdef, case, "conc", vals, seed, use_defaults)
    if oc[0] == "abort":
        return
    vals2 = dict(hc.values)
    if oc[0] == "ok":
        # the plain-float run is an ordinary concrete test of the real code: its verdict does not
        # depend on whether the exact-rational twin below gets through
        for n, ok in hc.obligations:
            # (the deterministic default point always counts)
            if not ok and (hdef.concrete_alarms or vals is not None or use_defaults):
                stats["violations"].append({
                    "harness": hdef.name, "case": case, "obligation": n, "values": dict(hc.values),
                    "detail": "obligation fails in a plain-float execution of the real code at a "
                              "translator-validation point (found outside the solver)"})
                break
    hf, of = _run_mode(hdef, case, "fold", vals2, seed)
    if oc[0] == "raise" or of[0] == "raise":
        if oc[0] != of[0]:
            which = oc if oc[0] == "raise" else of
            stats["errors"].append(
                f"translator validation: {hdef.name}{_case_repr(case)} raised in "
                f"{'conc' if oc[0] == 'raise' else 'fold'} mode only: "
                f"{type(which[1]).__name__}: {which[1]}\n{which[2]}")
        return
    if of[0] == "abort":
        return
    stats["validated_points"] += 1
    co = dict(hc.observed)
    for name, v in hf.observed:
        if name not in co:
            continue
        try:
            fv = _symval(v)
        except HarnessError:
            continue
        cv = float(co[name])
        if not abs(fv - cv) <= hdef.validation_rtol * max(1.0, abs(fv), abs(cv)):
            stats["errors"].append(
                f"translator validation mismatch {hdef.name}{_case_repr(case)} {name}: "
                f"float={cv!r} symbolic={fv!r}")
            break


def bare(cls):
    """An object of `cls` without running `__init__` (which needs a full model).  Attributes that the
    `__init__` of the class or of a base class initialises with a literal (`self.x = None`,
    `self.x: T = 0`, `self.flags = [False, False]` ...) are set to that literal first, so that a
    harness keeps working -- and keeps seeing the real initial state -- when the code grows such
    state; the harness then sets what it needs on top."""
    import ast
    import copy as _copy
    import textwrap
    obj = cls.__new__(cls)
    for k in reversed(cls.__mro__):
        init = k.__dict__.get("__init__")
        if init is None or not hasattr(init, "__code__"):
            continue
        try:
            tree = ast.parse(textwrap.dedent(inspect.getsource(init)))
        except (OSError, TypeError, SyntaxError):
            continue
        for node in ast.walk(tree):
            target = value = None
            if isinstance(node, ast.Assign) and len(node.targets) == 1:
                target, value = node.targets[0], node.value
            elif isinstance(node, ast.AnnAssign) and node.value is not None:
                target, value = node.target, node.value
            if (isinstance(target, ast.Attribute) and isinstance(target.value, ast.Name)
                    and target.value.id == "self"):
                try:
                    lit = ast.literal_eval(value)
                except (ValueError, TypeError, SyntaxError, MemoryError, RecursionError):
                    continue
                try:
                    object.__setattr__(obj, target.attr, _copy.deepcopy(lit))
                except (AttributeError, TypeError):
                    pass
    return obj


class Purifier:
    """Ackermannisation: replace every uninterpreted-function application by a fresh real
    constant and add functional-consistency constraints, so that z3 sees pure QF_NRA and
    uses its nlsat pipeline (with UFs present it falls back to a much weaker core)."""

    def __init__(self):
        self.cache = {}      # term id -> purified term
        self.apps = {}       # uf name -> list of (purified args, const)
        self.n = 0
        self.new_consistency = []

    def __call__(self, t):
        return self._p(t)

    def _p(self, t):
        # (a plain method: python-to-python recursion does not consume the C stack, `self(c)` would)
        k = t.get_id()
        r = self.cache.get(k)
        if r is not None:
            return r
        ch = t.children()
        if not ch:
            r = t
        else:
            nch = [self._p(c) for c in ch]
            if z3.is_app(t) and t.decl().kind() == z3.Z3_OP_UNINTERPRETED:
                name = t.decl().name()
                key = name + "|" + "|".join(c.sexpr() for c in nch)
                r = self.cache.get(key)
                if r is None:
                    self.n += 1
                    r = z3.Real(f"uf!{name}!{self.n}")
                    for args2, c2 in self.apps.get(name, []):
                        self.new_consistency.append(z3.Implies(
                            z3.And([a == b for a, b in zip(nch, args2)]), r == c2))
                    self.apps.setdefault(name, []).append((nch, r))
                    self.cache[key] = r
            elif all(a.eq(b) for a, b in zip(ch, nch)):
                r = t
            else:
                r = t.decl()(*nch)
        self.cache[k] = r
        return r

    def take_consistency(self):
        out, self.new_consistency = self.new_consistency, []
        return out


def _vars(t, memo):
    k = t.get_id()
    if k in memo:
        return memo[k]
    if z3.is_const(t):
        r = frozenset() if (z3.is_rational_value(t) or z3.is_true(t) or z3.is_false(t)
                            or z3.is_algebraic_value(t)) else frozenset([str(t)])
    elif z3.is_app(t) and t.decl().kind() == z3.Z3_OP_UNINTERPRETED:
        # a UF application is itself an atom (and links its arguments)
        r = frozenset([t.decl().name() + "()"]).union(*[_vars(c, memo) for c in t.children()])
    else:
        r = frozenset().union(*[_vars(c, memo) for c in t.children()]) if t.children() else frozenset()
    memo[k] = r
    return r


def _cone(cons, claim, axioms=()):
    memo = {}
    cv = [(_vars(c, memo), c) for c in cons]
    reach = set(_vars(claim, memo))
    chosen = [False] * len(cv)
    changed = True
    while changed:
        changed = False
        for i, (vs, c) in enumerate(cv):
            if not chosen[i] and (vs & reach or not vs):
                chosen[i] = True
                if not vs <= reach:
                    reach |= vs
                    changed = True
    out = [c for (vs, c), ch in zip(cv, chosen) if ch]
    # axioms never extend the cone: keep those that only talk about atoms already in it
    for a in axioms:
        if _vars(a, memo) <= reach:
            out.append(a)
    return out


def _case_repr(case):
    return "(" + ",".join(f"{k}={v}" for k, v in case.items()) + ")"


# --------------------------------------------------------------------------------------
# hook so that H knows its engine (set in H.__init__ when an engine is active)

_orig_init = H.__init__


def _init(self, mode, values=None, seed=0):
    _orig_init(self, mode, values, seed)
    self._engine = Engine.cur


H.__init__ = _init
