"""Numeric model finder used only when z3 answers `unknown` on (constraints AND NOT claim).

The purified (UF-free) formula is compiled to a penalty function over floats and minimised
from random starts with scipy; a point with zero penalty is handed back as a *candidate*
model.  It is never trusted: the caller replays it through the real code like any z3 model,
and only a reproduced failure is reported.  So this can turn an inconclusive obligation into
a confirmed violation, never into a pass.
"""
from __future__ import annotations

import math
import random

import numpy as np
import z3


def _collect_vars(fs):
    seen, out = set(), []

    def walk(t):
        if t.get_id() in seen:
            return
        seen.add(t.get_id())
        if z3.is_const(t) and t.decl().kind() == z3.Z3_OP_UNINTERPRETED and z3.is_real(t):
            out.append(t)
        for c in t.children():
            walk(c)
    for f in fs:
        walk(f)
    return out


class _Comp:
    """compile z3 real/bool terms into python closures over a value vector"""

    def __init__(self, variables):
        self.idx = {v.get_id(): i for i, v in enumerate(variables)}
        self.memo = {}
        self.epoch = 0

    def num(self, t):
        k = t.get_id()
        if k in self.memo:
            return self.memo[k]
        f = self._num(t)
        if t.num_args() > 0:
            # terms are DAGs: evaluate every shared node once per point (epoch), not once per
            # occurrence (a tree walk is exponential in the sharing depth)
            inner, slot, comp = f, [-1, 0.0], self

            def f(x, inner=inner, slot=slot, comp=comp):
                if slot[0] == comp.epoch:
                    return slot[1]
                v = inner(x)
                slot[0], slot[1] = comp.epoch, v
                return v
        self.memo[k] = f
        return f

    def _num(self, t):
        if z3.is_rational_value(t):
            v = float(t.as_fraction())
            return lambda x: v
        if z3.is_algebraic_value(t):
            v = float(t.approx(20).as_fraction())
            return lambda x: v
        if t.get_id() in self.idx:
            i = self.idx[t.get_id()]
            return lambda x: x[i]
        kind = t.decl().kind()
        ch = [self.num(c) for c in t.children()] if kind != z3.Z3_OP_ITE else None
        if kind == z3.Z3_OP_ADD:
            return lambda x: sum(c(x) for c in ch)
        if kind == z3.Z3_OP_SUB:
            return lambda x: ch[0](x) - sum(c(x) for c in ch[1:])
        if kind == z3.Z3_OP_UMINUS:
            return lambda x: -ch[0](x)
        if kind == z3.Z3_OP_MUL:
            def mul(x):
                r = 1.0
                for c in ch:
                    r *= c(x)
                return r
            return mul
        if kind == z3.Z3_OP_DIV:
            def div(x):
                d = ch[1](x)
                return ch[0](x) / d if d != 0 else float("inf")
            return div
        if kind == z3.Z3_OP_POWER:
            return lambda x: ch[0](x) ** ch[1](x)
        if kind == z3.Z3_OP_ITE:
            c, a, b = self.boolean(t.arg(0)), self.num(t.arg(1)), self.num(t.arg(2))
            return lambda x: a(x) if c(x) <= 0 else b(x)
        if kind == z3.Z3_OP_TO_REAL:
            return ch[0]
        raise NotImplementedError(str(t.decl()))

    def boolean(self, t):
        """penalty >= 0, zero iff (approximately) satisfied"""
        kind = t.decl().kind()
        if z3.is_true(t):
            return lambda x: 0.0
        if z3.is_false(t):
            return lambda x: 1.0
        if kind == z3.Z3_OP_AND:
            cs = [self.boolean(c) for c in t.children()]
            return lambda x: sum(c(x) for c in cs)
        if kind == z3.Z3_OP_OR:
            cs = [self.boolean(c) for c in t.children()]
            return lambda x: min(c(x) for c in cs)
        if kind == z3.Z3_OP_NOT:
            return self.negated(t.arg(0))
        if kind == z3.Z3_OP_IMPLIES:
            a, b = self.negated(t.arg(0)), self.boolean(t.arg(1))
            return lambda x: min(a(x), b(x))
        if kind == z3.Z3_OP_EQ and z3.is_bool(t.arg(0)):
            a, b = self.boolean(t.arg(0)), self.boolean(t.arg(1))
            na, nb = self.negated(t.arg(0)), self.negated(t.arg(1))
            return lambda x: min(a(x) + b(x), na(x) + nb(x))
        if kind in (z3.Z3_OP_LE, z3.Z3_OP_LT, z3.Z3_OP_GE, z3.Z3_OP_GT, z3.Z3_OP_EQ, z3.Z3_OP_DISTINCT):
            a, b = self.num(t.arg(0)), self.num(t.arg(1))
            eps = 1e-9
            if kind == z3.Z3_OP_LE:
                return lambda x: max(0.0, a(x) - b(x))
            if kind == z3.Z3_OP_LT:
                return lambda x: max(0.0, a(x) - b(x) + eps * (1 + abs(b(x))))
            if kind == z3.Z3_OP_GE:
                return lambda x: max(0.0, b(x) - a(x))
            if kind == z3.Z3_OP_GT:
                return lambda x: max(0.0, b(x) - a(x) + eps * (1 + abs(a(x))))
            if kind == z3.Z3_OP_EQ:
                return lambda x: abs(a(x) - b(x))
            return lambda x: max(0.0, 1e-6 * (1 + abs(a(x))) - abs(a(x) - b(x)))
        if kind == z3.Z3_OP_ITE:
            c, a, b = self.boolean(t.arg(0)), self.boolean(t.arg(1)), self.boolean(t.arg(2))
            return lambda x: a(x) if c(x) <= 0 else b(x)
        raise NotImplementedError(str(t.decl()))

    def negated(self, t):
        kind = t.decl().kind()
        if kind == z3.Z3_OP_NOT:
            return self.boolean(t.arg(0))
        if kind == z3.Z3_OP_AND:
            cs = [self.negated(c) for c in t.children()]
            return lambda x: min(c(x) for c in cs)
        if kind == z3.Z3_OP_OR:
            cs = [self.negated(c) for c in t.children()]
            return lambda x: sum(c(x) for c in cs)
        if kind == z3.Z3_OP_IMPLIES:
            a, b = self.boolean(t.arg(0)), self.negated(t.arg(1))
            return lambda x: a(x) + b(x)
        flip = {z3.Z3_OP_LE: z3.Z3_OP_GT, z3.Z3_OP_LT: z3.Z3_OP_GE, z3.Z3_OP_GE: z3.Z3_OP_LT,
                z3.Z3_OP_GT: z3.Z3_OP_LE}
        if kind in flip:
            a, b = t.arg(0), t.arg(1)
            mk = {z3.Z3_OP_GT: a > b, z3.Z3_OP_GE: a >= b, z3.Z3_OP_LT: a < b, z3.Z3_OP_LE: a <= b}[flip[kind]]
            return self.boolean(mk)
        if kind == z3.Z3_OP_EQ and z3.is_bool(t.arg(0)):
            a, b = self.boolean(t.arg(0)), self.boolean(t.arg(1))
            na, nb = self.negated(t.arg(0)), self.negated(t.arg(1))
            return lambda x: min(a(x) + nb(x), na(x) + b(x))
        if kind == z3.Z3_OP_EQ and z3.is_real(t.arg(0)):
            return self.boolean(t.arg(0) != t.arg(1))
        if kind == z3.Z3_OP_DISTINCT:
            return self.boolean(t.arg(0) == t.arg(1))
        if z3.is_true(t):
            return lambda x: 1.0
        if z3.is_false(t):
            return lambda x: 0.0
        raise NotImplementedError(str(t.decl()))


class _OutOfTime(Exception):
    pass


def find_model(constraints, negated_claim, seed=0, starts=24, budget_s=20.0):
    """returns {z3 var: float} with all constraints and the negated claim satisfied up to
    1e-7 penalty, or None."""
    import time
    from scipy.optimize import minimize
    fs = [z3.simplify(c) for c in constraints] + [z3.simplify(negated_claim)]
    variables = _collect_vars(fs)
    if not variables or len(variables) > 60:
        return None
    comp = _Comp(variables)
    try:
        pens = [comp.boolean(f) for f in fs]
    except NotImplementedError:
        return None

    t0 = time.time()
    calls = [0]

    def total(x):
        comp.epoch += 1
        calls[0] += 1
        if calls[0] % 32 == 0 and time.time() - t0 > budget_s:
            raise _OutOfTime()
        try:
            s = 0.0
            for p in pens:
                v = p(x)
                if v != v or v == float("inf"):
                    return 1e30
                s += v * v
            return s
        except (OverflowError, ZeroDivisionError, ValueError):
            return 1e30
    rng = random.Random(seed)
    for k in range(starts):
        if time.time() - t0 > budget_s:
            break
        x0 = np.array([rng.choice([rng.uniform(0.05, 0.95), rng.uniform(0.5, 3.0), rng.uniform(-2, 2)]) for _ in variables])
        try:
            r = minimize(total, x0, method="Nelder-Mead", options={"maxiter": 4000, "xatol": 1e-12, "fatol": 1e-20})
            x = r.x
            r2 = minimize(total, x, method="Powell", options={"maxiter": 4000, "xtol": 1e-12, "ftol": 1e-20})
            if r2.fun < r.fun:
                x = r2.x
        except _OutOfTime:
            return None
        except Exception:  # noqa: BLE001
            continue
        calls[0] = 1
        if total(x) < 1e-14:
            return {v: float(x[i]) for i, v in enumerate(variables)}
    return None
