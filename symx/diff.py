"""Symbolic differentiation of the z3 terms the real code builds (used for claims of the
form "X is the derivative of Y": run Y on a symbolic argument, differentiate the resulting
term, compare with the code's X)."""
from __future__ import annotations

import z3

from . import core


def depends(e, x, memo=None):
    memo = {} if memo is None else memo
    k = e.get_id()
    if k in memo:
        return memo[k]
    if e.eq(x):
        r = True
    else:
        r = any(depends(c, x, memo) for c in e.children())
    memo[k] = r
    return r


class Differ:
    def __init__(self, engine, x, uf_rules=None):
        """uf_rules: {uf name: callable(args list, index) -> z3 term of partial derivative}"""
        self.e = engine
        self.x = x
        self.rules = uf_rules or {}
        self.memo = {}
        self.dep = {}
        self.sqrt_vars = {v[0].get_id(): v for v in engine.sqrt_tab.values()}

    def d(self, t):
        k = t.get_id()
        if k in self.memo:
            return self.memo[k]
        r = self._d(t)
        self.memo[k] = r
        return r

    def _d(self, t):
        zero = z3.RealVal(0)
        if not depends(t, self.x, self.dep):
            # sqrt variables depend on x through their radicand
            if not self._sqrt_dep(t):
                return zero
        if t.eq(self.x):
            return z3.RealVal(1)
        if z3.is_const(t):
            sv = self.sqrt_vars.get(t.get_id())
            if sv is not None:
                s, rad = sv
                return self.d(rad) / (2 * s)
            return zero
        kind = t.decl().kind()
        ch = t.children()
        if kind == z3.Z3_OP_ADD:
            return z3.Sum([self.d(c) for c in ch])
        if kind == z3.Z3_OP_SUB:
            r = self.d(ch[0])
            for c in ch[1:]:
                r = r - self.d(c)
            return r
        if kind == z3.Z3_OP_UMINUS:
            return -self.d(ch[0])
        if kind == z3.Z3_OP_MUL:
            terms = []
            for i, c in enumerate(ch):
                dc = self.d(c)
                if z3.is_rational_value(dc) and dc.as_fraction() == 0:
                    continue
                others = [o for j, o in enumerate(ch) if j != i]
                terms.append(z3.Product([dc] + others) if others else dc)
            return z3.Sum(terms) if terms else zero
        if kind == z3.Z3_OP_DIV:
            a, b = ch
            return (self.d(a) * b - a * self.d(b)) / (b * b)
        if kind == z3.Z3_OP_ITE:
            return z3.If(ch[0], self.d(ch[1]), self.d(ch[2]))
        if kind == z3.Z3_OP_POWER:
            b, ex = ch
            if z3.is_rational_value(ex):
                return ex * z3.ToReal(b) ** (ex - 1) * self.d(b) if False else \
                    ex * (b ** (ex - 1)) * self.d(b)
            raise NotImplementedError("symbolic exponent in z3 power")
        if kind == z3.Z3_OP_UNINTERPRETED:
            name = t.decl().name()
            if name == "pow":
                b, ex = ch
                if depends(ex, self.x, self.dep):
                    raise NotImplementedError("pow with x-dependent exponent")
                return ex * self.e.app(core.POW, b, ex - 1) * self.d(b)
            if name in _BUILTIN:
                return _BUILTIN[name](self.e, ch[0]) * self.d(ch[0])
            if name in self.rules:
                out = []
                for i, c in enumerate(ch):
                    dc = self.d(c)
                    if z3.is_rational_value(dc) and dc.as_fraction() == 0:
                        continue
                    out.append(self.rules[name](ch, i) * dc)
                return z3.Sum(out) if out else zero
            raise NotImplementedError(f"no derivative rule for {name}")
        raise NotImplementedError(f"diff: unsupported term kind {t.decl()}")

    def _sqrt_dep(self, t):
        if z3.is_const(t):
            sv = self.sqrt_vars.get(t.get_id())
            return sv is not None and (depends(sv[1], self.x, self.dep) or self._sqrt_dep_rad(sv[1]))
        return any(self._sqrt_dep(c) for c in t.children())

    def _sqrt_dep_rad(self, rad):
        return any(self._sqrt_dep(c) for c in rad.children()) if rad.children() else False


def _app(e, name, a):
    return e.app(core.UF[name], a)


_BUILTIN = {
    "exp": lambda e, a: _app(e, "exp", a),
    "log": lambda e, a: 1 / a,
    "tanh": lambda e, a: 1 - _app(e, "tanh", a) * _app(e, "tanh", a),
    "arctanh": lambda e, a: 1 / (1 - a * a),
    "cosh": lambda e, a: _app(e, "sinh", a),
    "sinh": lambda e, a: _app(e, "cosh", a),
    "arctan": lambda e, a: 1 / (1 + a * a),
    "sin": lambda e, a: _app(e, "cos", a),
    "cos": lambda e, a: -_app(e, "sin", a),
}


def diff(sym_value, sym_var, uf_rules=None):
    """d(sym_value)/d(sym_var) for Sym arguments, returned as Sym."""
    e = core.cur()
    dz = Differ(e, sym_var.t, uf_rules).d(core.toz3(sym_value))
    return core.Sym(dz)
