"""CLI: python -m symx.run <ID> [--tier quick|thorough] [--replay file] [--only harness]

Exit codes: 0 held within bounds (KNOWN-FINDING lines allowed); 1 reproduced violation not
listed in known_findings.json; 3 harness error / inconclusive obligation.
"""
from __future__ import annotations

import argparse
import hashlib
import importlib
import inspect
import json
import multiprocessing as mp
import os
import sys
import time
import warnings

VERIF = os.path.dirname(os.path.dirname(os.path.abspath(__file__)))
os.environ.setdefault("WALLGO_VERIF", "1")
warnings.filterwarnings("ignore")
import logging as _logging
_logging.disable(_logging.CRITICAL)


def _load(pid):
    sys.path.insert(0, VERIF)
    mod = importlib.import_module(f"props.{pid.lower()}")
    late = getattr(mod, "_late", None)
    if late is not None and not getattr(mod, "_late_done", False):
        # harnesses shared with a module that imports this one (registered after both are loaded)
        mod._late_done = True
        late()
    return mod


def _job(args):
    pid, hname, case, tier, seed = args
    warnings.filterwarnings("ignore")
    import z3  # noqa: F401
    from symx import harness as HN
    mod = _load(pid)
    hdef = {h.name: h for h in mod.HARNESSES}[hname]
    # watchdog: a job that is still running long after its time budget is stuck inside a native call
    # that ignores the interrupt; dump where, and end the worker (the runner re-runs the job once and
    # then reports it as inconclusive) instead of hanging the check
    import faulthandler
    budget = float(os.environ.get("VERIF_JOB_BUDGET_S", "480" if tier == "quick" else "3000"))
    limit = float(os.environ.get("VERIF_JOB_HARD_LIMIT_S", str(min(1.5 * budget + 180, 1500.0))))
    faulthandler.dump_traceback_later(limit, exit=True)
    try:
        st = HN.run_job(hdef, case, tier=tier, seed=seed)
    except BaseException as ex:  # noqa: BLE001
        import traceback
        st = {"harness": hname, "case": str(case), "errors": [
            f"job crashed: {type(ex).__name__}: {ex}\n{traceback.format_exc(limit=8)}"],
            "violations": [], "inconclusive": [], "paths": 0, "aborted": 0, "obligations": 0,
            "unsat": 0, "sat_replayed": 0, "sat_spurious": 0, "unknown": 0, "solver_s": 0.0,
            "queries": 0, "bound_hit": False, "vacuity_sat": 0, "validated_points": 0,
            "samples": [], "assumptions": [], "distinct": [], "wall_s": 0.0,
            "lifted_constants": 0}
    finally:
        faulthandler.cancel_dump_traceback_later()
    return st


def _crashed(job, why):
    pid, hname, case, tier, seed = job
    return {"harness": hname, "case": str(case), "errors": [f"job crashed: {why}"],
            "violations": [], "inconclusive": [], "paths": 0, "aborted": 0, "obligations": 0,
            "unsat": 0, "sat_replayed": 0, "sat_spurious": 0, "unknown": 0, "solver_s": 0.0,
            "queries": 0, "bound_hit": False, "vacuity_sat": 0, "validated_points": 0,
            "samples": [], "assumptions": [], "distinct": [], "wall_s": 0.0, "lifted_constants": 0}


def _run_parallel(jobs, nproc):
    """One process per job slot; a worker that dies (a crash inside the solver library) breaks the
    executor instead of hanging the check: the jobs without a result are re-run one by one in fresh
    single-worker executors, and a job that dies again is reported as a harness error (exit 3)."""
    from concurrent.futures import ProcessPoolExecutor
    from concurrent.futures.process import BrokenProcessPool
    ctx = mp.get_context("fork")
    results = [None] * len(jobs)
    try:
        with ProcessPoolExecutor(max_workers=nproc, mp_context=ctx) as ex:
            futs = {i: ex.submit(_job, j) for i, j in enumerate(jobs)}
            for i, f in futs.items():
                try:
                    results[i] = f.result()
                except BrokenProcessPool:
                    pass
    except BrokenProcessPool:
        pass
    for i, j in enumerate(jobs):
        if results[i] is None:
            try:
                with ProcessPoolExecutor(max_workers=1, mp_context=ctx) as ex:
                    results[i] = ex.submit(_job, j).result()
            except BrokenProcessPool:
                results[i] = _crashed(j, "worker process died (twice) while running this job")
    return results


def _src_hash(fn):
    try:
        src = inspect.getsource(fn)
    except (OSError, TypeError):
        return None
    return hashlib.sha256(src.encode()).hexdigest()[:16]


def _qualname(fn):
    return f"{getattr(fn, '__module__', '?')}.{getattr(fn, '__qualname__', repr(fn))}"


def load_known():
    p = os.path.join(VERIF, "known_findings.json")
    if not os.path.exists(p):
        return []
    return json.load(open(p))["findings"]


def match_known(known, pid, viol):
    for k in known:
        if k.get("status") != "open" or k["property"] != pid:
            continue
        if k["harness"] != viol["harness"]:
            continue
        if not viol["obligation"].startswith(k["obligation"]):
            continue
        cm = k.get("case_match")
        if cm and any(str(viol["case"].get(a)) != str(b) for a, b in cm.items()):
            continue
        return k
    return None


def replay(pid, path):
    from symx import harness as HN
    rec = json.load(open(path))
    mod = _load(pid)
    hdef = {h.name: h for h in mod.HARNESSES}[rec["harness"]]
    hc, oc = HN._run_mode(hdef, rec["case"], "conc", rec["values"], 0)
    if oc[0] == "raise":
        name = f"no-unexpected-exception:{type(oc[1]).__name__}"
        rep = name == rec["obligation"]
        print(f"replay: raised {type(oc[1]).__name__}: {oc[1]}")
    else:
        failed = [n for n, ok in hc.obligations if n == rec["obligation"] and not ok]
        rep = bool(failed)
    for n, ok in hc.obligations:
        print(f"  obligation {n}: {'holds' if ok else 'FAILS'}")
    print("REPRODUCED" if rep else "NOT REPRODUCED")
    if rep:
        print(f"VIOLATION property={pid} replay={path}")
    return 1 if rep else 0


def main(argv=None):
    ap = argparse.ArgumentParser()
    ap.add_argument("pid")
    ap.add_argument("--tier", default=os.environ.get("VERIF_TIER", "quick"))
    ap.add_argument("--replay")
    ap.add_argument("--only")
    ap.add_argument("--jobs", type=int, default=int(os.environ.get("VERIF_JOBS", "14")))
    ap.add_argument("--no-evidence", action="store_true")
    a = ap.parse_args(argv)
    pid = a.pid.upper()
    tier = "thorough" if a.tier.startswith("t") else "quick"
    seed = int(os.environ.get("VERIF_SEED", "0") or 0)
    if a.replay:
        return replay(pid, a.replay)
    t0 = time.time()
    mod = _load(pid)
    jobs = []
    for h in mod.HARNESSES:
        if a.only and a.only != h.name:
            continue
        for case in (h.cases_quick if tier == "quick" else h.cases_thorough):
            jobs.append((pid, h.name, case, tier, seed))
    # longest first is unknown; keep order
    if a.jobs > 1 and len(jobs) > 1:
        stats = _run_parallel(jobs, min(a.jobs, len(jobs)))
    else:
        stats = [_job(j) for j in jobs]

    known = load_known()
    tot = {k: 0 for k in ("paths", "aborted", "obligations", "unsat", "sat_replayed",
                          "sat_spurious", "unknown", "queries", "vacuity_sat",
                          "validated_points", "lifted_constants", "concrete_true", "folded_symbolic")}
    solver_s = 0.0
    violations, errors, inconclusive, assumptions, samples, distinct = [], [], [], [], [], set()
    per_h = {}
    for st in stats:
        for k in tot:
            tot[k] += st.get(k, 0)
        solver_s += st.get("solver_s", 0.0)
        violations += st["violations"]
        errors += st["errors"]
        inconclusive += st["inconclusive"]
        for x in st["assumptions"]:
            if x not in assumptions:
                assumptions.append(x)
        samples += st["samples"][:1]
        distinct.update(st["distinct"])
        ph = per_h.setdefault(st["harness"], {"cases": 0, "paths": 0, "obligations": 0,
                                              "unsat": 0, "wall_s": 0.0})
        ph["cases"] += 1
        ph["paths"] += st.get("paths", 0)
        ph["obligations"] += st.get("obligations", 0)
        ph["unsat"] += st.get("unsat", 0)
        ph["wall_s"] = round(ph["wall_s"] + st.get("wall_s", 0.0), 2)

    os.makedirs(os.path.join(VERIF, "replays"), exist_ok=True)
    new_viol = []
    known_hit = {}
    for v in violations:
        k = match_known(known, pid, v)
        if k is not None:
            known_hit.setdefault(k["id"], k)
            continue
        new_viol.append(v)
    for k in known_hit.values():
        print(f"KNOWN-FINDING: property={pid} {k['what']}")
    printed = set()
    for v in new_viol:
        body = json.dumps({"property": pid, **v}, sort_keys=True, default=str)
        sha = hashlib.sha1((v["harness"] + v["obligation"] + json.dumps(v["case"], sort_keys=True,
                                                                      default=str)).encode()).hexdigest()[:10]
        path = os.path.join(VERIF, "replays", f"{pid}-{sha}.json")
        if path in printed:
            continue
        printed.add(path)
        with open(path, "w") as f:
            f.write(body)
        print(f"VIOLATION property={pid} replay={path}")
        print(f"  harness={v['harness']} case={v['case']} obligation={v['obligation']}: {v['detail']}")

    # known findings that no longer reproduce are reported (informational)
    for k in known:
        if k["property"] == pid and k.get("status") == "open" and k["id"] not in known_hit \
                and not a.only:
            print(f"note: known finding {k['id']} did not reproduce on this tree")

    for e in errors:
        print("HARNESS-ERROR:", e)
    for i in inconclusive:
        print("INCONCLUSIVE:", i)

    encoded = []
    for h in mod.HARNESSES:
        for fn in h.encodes:
            q = _qualname(fn)
            if q not in [x["function"] for x in encoded]:
                encoded.append({"function": q, "sha256_16": _src_hash(fn)})
    wall = time.time() - t0
    rc = 1 if new_viol else (3 if (errors or inconclusive) else 0)
    if not a.no_evidence and not a.only:
        import z3
        ev = {
            "property_id": pid, "tier": tier, "seed": seed, "level": "other",
            "coverage": {
                "explanation": getattr(mod, "EXPLANATION", "") or (mod.__doc__ or "").strip(),
                "evaluations": tot["obligations"] + tot["folded_symbolic"],
                "distinct_nontrivial": len(distinct),
                "rule": "one evaluation = one (path, obligation) claim over the z3 term the real "
                        "WallGo code built on symbolic inputs, decided either by an SMT query or, "
                        "when both sides normalise to the same term, by z3's simplifier "
                        "(claims_settled_by_term_normalisation); distinct = distinct (obligation "
                        "name, claim term) pairs; ground claims without symbolic inputs are not counted",
                "samples": samples[:6],
                "functions_encoded": encoded,
                "bounds": getattr(mod, "BOUNDS", {}),
                "outside_claim": getattr(mod, "OUTSIDE", []),
                "paths_explored": tot["paths"], "paths_infeasible_or_precondition": tot["aborted"],
                "obligations": tot["obligations"], "discharged": tot["unsat"],
                "sat_reproduced": tot["sat_replayed"], "sat_spurious": tot["sat_spurious"],
                "unknown": tot["unknown"], "smt_queries": tot["queries"],
                "solver_time_s": round(solver_s, 2),
                "vacuity_paths_sat": tot["vacuity_sat"],
                "claims_decided_by_constant_folding": tot["concrete_true"],
                "claims_settled_by_term_normalisation": tot["folded_symbolic"],
                "translator_validation_points": tot["validated_points"],
                "ideal_constant_lifts": tot["lifted_constants"],
                "per_harness": per_h,
                "solver": f"z3 {z3.get_version_string()}",
                "known_findings_reproduced": sorted(known_hit),
                "harness_errors": len(errors), "inconclusive": len(inconclusive),
                "exhaustive": False,
            },
            "assumptions": assumptions + list(getattr(mod, "ASSUMPTIONS", [])),
            "wall_s": round(wall, 2),
            "violations": len(new_viol),
        }
        os.makedirs(os.path.join(VERIF, "evidence"), exist_ok=True)
        with open(os.path.join(VERIF, "evidence", f"{pid}.json"), "w") as f:
            json.dump(ev, f, indent=1, default=str)
    print(f"{pid} tier={tier}: jobs={len(jobs)} paths={tot['paths']} obligations={tot['obligations']} "
          f"unsat={tot['unsat']} reproduced={tot['sat_replayed']} spurious={tot['sat_spurious']} "
          f"unknown={tot['unknown']} solver={solver_s:.1f}s wall={wall:.1f}s exit={rc}")
    return rc


if __name__ == "__main__":
    sys.exit(main())
