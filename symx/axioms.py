"""Finitely instantiated true axioms for the uninterpreted transcendental functions.
Every axiom is true of the real function, so `unsat` stays sound; `sat` models may be
artefacts and are always replayed concretely before being reported."""
from __future__ import annotations

import z3

from . import core


def pow_axioms(e):
    out = []
    apps = e.apps.get("pow", [])
    for (b, ex), app in apps:
        out.append(z3.Implies(b > 0, app > 0))
        out.append(z3.Implies(ex == 0, app == 1))
        out.append(z3.Implies(ex == 1, app == b))
        out.append(z3.Implies(ex == 2, app == b * b))
        out.append(z3.Implies(b == 1, app == 1))
    for i, ((b1, e1), a1) in enumerate(apps):
        for j, ((b2, e2), a2) in enumerate(apps):
            if i == j:
                continue
            same_base = b1.eq(b2)
            if same_base:
                d = z3.simplify(e1 - e2)
                if z3.is_rational_value(d):
                    q = d.as_fraction()
                    if q == 1:
                        out.append(z3.Implies(b1 > 0, a1 == b1 * a2))
                    elif q == 2:
                        out.append(z3.Implies(b1 > 0, a1 == b1 * b1 * a2))
                    elif q == 0 and i < j:
                        out.append(a1 == a2)
                elif i < j:
                    out.append(z3.Implies(e1 == e2, a1 == a2))
                    out.append(z3.Implies(z3.And(b1 > 0, e1 == e2 + 1), a1 == b1 * a2))
                    out.append(z3.Implies(z3.And(b1 > 0, e2 == e1 + 1), a2 == b1 * a1))
            elif i < j:
                out.append(z3.Implies(z3.And(b1 == b2, e1 == e2), a1 == a2))
    return out


def pow_scaling_axioms(e):
    """pow(b*c, e) = pow(b,e)*pow(c,e) for all ordered triples of registered applications
    with syntactically equal exponent (used by the unit-covariance harness)."""
    out = []
    apps = e.apps.get("pow", [])
    byexp = {}
    for (b, ex), app in apps:
        byexp.setdefault(ex.sexpr(), []).append((b, app))
    for lst in byexp.values():
        for b1, a1 in lst:
            for b2, a2 in lst:
                for b3, a3 in lst:
                    if b1 is b2 or b1 is b3:
                        continue
                    out.append(z3.Implies(z3.And(b2 > 0, b3 > 0, b1 == b2 * b3), a1 == a2 * a3))
    return out


def tanh_axioms(e):
    out = []
    for (a,), app in e.apps.get("tanh", []):
        out += [app < 1, app > -1, z3.Implies(a > 0, app > 0), z3.Implies(a < 0, app < 0),
                z3.Implies(a == 0, app == 0)]
    for (a,), app in e.apps.get("cosh", []):
        out += [app >= 1]
        for (a2,), app2 in e.apps.get("tanh", []):
            if a.eq(a2):
                out.append(app * app * (1 - app2 * app2) == 1)
        for (a2,), app2 in e.apps.get("sinh", []):
            if a.eq(a2):
                out.append(app * app - app2 * app2 == 1)
    for (a,), app in e.apps.get("arctanh", []):
        out += [z3.Implies(a > 0, app > 0), z3.Implies(a < 0, app < 0), z3.Implies(a == 0, app == 0)]
        for (a2,), app2 in e.apps.get("tanh", []):
            if a2.eq(app):
                out.append(app2 == a)
    for (a,), app in e.apps.get("tanh", []):
        for (a2,), app2 in e.apps.get("arctanh", []):
            if a2.eq(app):
                out.append(app2 == a)
    return out


def exp_axioms(e):
    out = []
    for (a,), app in e.apps.get("exp", []):
        out += [app > 0, z3.Implies(a > 0, app > 1), z3.Implies(a < 0, app < 1),
                app >= 1 + a]
        for (a2,), app2 in e.apps.get("log", []):
            if a.eq(app2):
                out.append(app == a2)
    for (a,), app in e.apps.get("log", []):
        out += [z3.Implies(a > 1, app > 0), z3.Implies(z3.And(a > 0, a < 1), app < 0),
                z3.Implies(a == 1, app == 0)]
        for (a2,), app2 in e.apps.get("exp", []):
            if a.eq(app2):
                out.append(app == a2)
    exps = e.apps.get("exp", [])
    for i, ((a1,), p1) in enumerate(exps):
        for (a2,), p2 in exps[i + 1:]:
            out.append(z3.Implies(a1 == a2, p1 == p2))
            out.append(z3.Implies(a1 == -a2, p1 * p2 == 1))
            out.append(z3.Implies(a1 < a2, p1 < p2))
            out.append(z3.Implies(a1 > a2, p1 > p2))
    return out


def functional_consistency(name):
    """f(a) == f(b) whenever a == b semantically (z3 UFs give this for free; this is for
    documentation only)."""
    return lambda e: []


STANDARD = [pow_axioms, tanh_axioms, exp_axioms]
