"""A thin proxy for the `np` global of a WallGo module: real numpy, except for the handful
of entry points that do not work on object arrays of Sym.  Installed with `H.patch`."""
from __future__ import annotations

import builtins
import math

import numpy as _np

from . import core
from .core import Sym


def _is_obj(a):
    return isinstance(a, Sym) or (isinstance(a, _np.ndarray) and a.dtype == object)


class _FloatMeta(type):
    def __instancecheck__(cls, obj):
        return isinstance(obj, builtins.float)

    def __subclasscheck__(cls, sub):
        return issubclass(sub, builtins.float)


class symfloat(metaclass=_FloatMeta):
    """Replacement for the `float` builtin in patched modules: identity on Sym, builtin
    float otherwise; `isinstance(x, float)` keeps its meaning."""

    def __new__(cls, x=0.0):
        if isinstance(x, Sym):
            return x
        if isinstance(x, _np.ndarray) and x.dtype == object:
            if x.size != 1:
                raise TypeError("only length-1 arrays can be converted to Python scalars")
            v = x.reshape(()).item()
            return v if isinstance(v, Sym) else builtins.float(v)
        return builtins.float(x)


def symint(x=0, *a):
    if isinstance(x, Sym):
        raise TypeError("int() of symbolic value")
    return builtins.int(x, *a)


def _elementwise(name):
    real = getattr(_np, name)
    f = core._UFUNC[name]

    def g(x, *args, **kw):
        if isinstance(x, Sym):
            r = f(x)
            return _np.bool_(bool(r)) if name in core._CMP else r
        if isinstance(x, _np.ndarray) and x.dtype == object:
            r = _np.frompyfunc(f, 1, 1)(x)
            if name in core._CMP:
                # (a 0-d object array comes back as a bare python object)
                r = r.astype(bool) if isinstance(r, _np.ndarray) else _np.bool_(bool(r))
            out = kw.get("out")
            if isinstance(out, tuple):
                out = out[0] if out else None
            if isinstance(out, _np.ndarray):
                # in-place form np.f(x, out=y): numpy writes into y (possibly x itself)
                out[...] = r
                return out
            return r
        if isinstance(x, (list, tuple)):
            a = _np.asarray(x)
            if a.dtype == object:
                return g(a)
        return real(x, *args, **kw)
    g.__name__ = name
    return g


def _binary(name):
    real = getattr(_np, name)
    f = core._UFUNC[name]

    def g(a, b, *args, **kw):
        if _is_obj(a) or _is_obj(b) or any(
            isinstance(v, (list, tuple)) and _np.asarray(v).dtype == object for v in (a, b)
        ):
            a2 = core.unbox(_np.asarray(a)) if not isinstance(a, Sym) else a
            b2 = core.unbox(_np.asarray(b)) if not isinstance(b, Sym) else b
            if not isinstance(a2, _np.ndarray) and not isinstance(b2, _np.ndarray):
                r = f(a2, b2)
                return bool(r) if name in core._CMP else r
            r = _np.frompyfunc(f, 2, 1)(core._box(a2), core._box(b2))
            if name in core._CMP:
                r = r.astype(bool)
            return r
        return real(a, b, *args, **kw)
    g.__name__ = name
    return g


ARANGE_MAX = 6


class NP:
    """Proxy object standing in for the numpy module inside a patched module."""

    def __init__(self, object_alloc=True):
        self._object_alloc = object_alloc
        for n in ("sqrt", "exp", "log", "tanh", "arctanh", "cosh", "sinh", "cos", "sin", "tan",
                  "arctan", "isnan", "isfinite", "isinf", "square", "sign", "absolute", "fabs"):
            setattr(self, n, _elementwise(n))
        self.abs = self.absolute
        for n in ("maximum", "minimum", "power"):
            setattr(self, n, _binary(n))

    def __getattr__(self, name):
        return getattr(_np, name)

    # allocation: float arrays that may later receive Sym entries become object arrays
    def _alloc(self, fn, shape, dtype, fill):
        if self._object_alloc and (dtype is None or dtype is float or dtype == _np.float64):
            a = _np.empty(shape, dtype=object)
            a[...] = fill
            return a
        return fn(shape, dtype=dtype)

    def zeros(self, shape, dtype=None, **kw):
        return self._alloc(_np.zeros, shape, dtype, 0.0)

    def ones(self, shape, dtype=None, **kw):
        return self._alloc(_np.ones, shape, dtype, 1.0)

    def empty(self, shape, dtype=None, **kw):
        # np.empty promises nothing about the contents: poison them, so that an element the code
        # forgets to write is visible (NaN) instead of looking like a legitimate 0.0
        return self._alloc(_np.empty, shape, dtype, float("nan"))

    def full(self, shape, fill_value, dtype=None, **kw):
        if isinstance(fill_value, Sym) or self._object_alloc and dtype in (None, float):
            a = _np.empty(shape, dtype=object)
            a[...] = fill_value
            return a
        return _np.full(shape, fill_value, dtype=dtype, **kw)

    def zeros_like(self, a, dtype=None, **kw):
        if dtype is None and _is_obj(_np.asarray(a)):
            r = _np.empty(_np.shape(a), dtype=object)
            r[...] = 0.0
            return r
        return _np.zeros_like(a, dtype=dtype, **kw)

    def ones_like(self, a, dtype=None, **kw):
        if dtype is None and _is_obj(_np.asarray(a)):
            r = _np.empty(_np.shape(a), dtype=object)
            r[...] = 1.0
            return r
        return _np.ones_like(a, dtype=dtype, **kw)

    def isscalar(self, x):
        return isinstance(x, Sym) or _np.isscalar(x)

    def isclose(self, a, b, rtol=1e-05, atol=1e-08, equal_nan=False):
        """numpy's definition |a - b| <= atol + rtol |b|, decided eagerly element by element"""
        if not (_is_obj(a) or _is_obj(b)):
            return _np.isclose(a, b, rtol=rtol, atol=atol, equal_nan=equal_nan)
        A, B = _np.broadcast_arrays(_np.asarray(a, dtype=object), _np.asarray(b, dtype=object))
        out = _np.empty(A.shape, dtype=bool)
        for idx in _np.ndindex(*A.shape):
            x, y = A[idx], B[idx]
            d = x - y
            ad = abs(d) if not isinstance(d, Sym) else (d if bool(d >= 0) else -d)
            ay = abs(y) if not isinstance(y, Sym) else (y if bool(y >= 0) else -y)
            out[idx] = bool(ad <= atol + rtol * ay)
        return out if out.ndim else _np.bool_(out[()])

    def allclose(self, a, b, rtol=1e-05, atol=1e-08, equal_nan=False):
        return bool(_np.all(self.isclose(a, b, rtol=rtol, atol=atol, equal_nan=equal_nan)))

    def all(self, a, *args, **kw):
        return _np.all(_np.asarray(a).astype(bool) if _is_obj(_np.asarray(a)) else a, *args, **kw)

    def any(self, a, *args, **kw):
        return _np.any(_np.asarray(a).astype(bool) if _is_obj(_np.asarray(a)) else a, *args, **kw)

    def where(self, cond, *args):
        cond = _np.asarray(cond)
        if cond.dtype == object:
            cond = cond.astype(bool)
        if not args:
            return _np.where(cond)
        a, b = args
        if isinstance(a, Sym):
            a = core._box(a)
        if isinstance(b, Sym):
            b = core._box(b)
        return _np.where(cond, a, b)

    def einsum(self, subscripts, *operands, **kw):
        if any(_is_obj(_np.asarray(o)) for o in operands):
            return _einsum_obj(subscripts, *[_np.asarray(o) for o in operands])
        return _np.einsum(subscripts, *operands, **kw)

    def arange(self, *args, **kw):
        """np.arange with symbolic ends: the length ceil((stop-start)/step) is decided by
        forking on the integer it equals (bounded by ARANGE_MAX).  Rounding-adversarial: when
        the quotient is exactly an integer m over the reals, the float computation may also
        yield m+1 points (DESIGN 1.4) -- that branch is explored too and tagged."""
        if not any(isinstance(a, Sym) for a in args):
            return _np.arange(*args, **kw)
        if len(args) == 1:
            start, stop, step = 0, args[0], 1
        elif len(args) == 2:
            start, stop, step = args[0], args[1], 1
        else:
            start, stop, step = args[:3]
        q = (stop - start) / step
        e = core.cur()
        n = None
        for m in range(0, ARANGE_MAX + 1):
            if q <= m:
                n = m
                if m > 0 and q == m:
                    import z3
                    e.nfresh += 1
                    if e.branch(z3.Bool(f"arange_rounds_up!{e.nfresh}")):
                        n = m + 1
                        e.log.append("arange: rounding-adversarial extra point")
                break
        if n is None:
            raise core.BoundHit("arange longer than ARANGE_MAX")
        out = _np.empty(n, dtype=object)
        for i in range(n):
            out[i] = start + i * step
        return out

    def linspace(self, start, stop, num=50, endpoint=True, **kw):
        if isinstance(start, Sym) or isinstance(stop, Sym):
            num = builtins.int(num)
            div = (num - 1) if endpoint else num
            out = _np.empty(num, dtype=object)
            for i in range(num):
                out[i] = start + (stop - start) * (i / div if div else 0.0)
            if endpoint and num > 1:
                out[-1] = stop
            return out
        return _np.linspace(start, stop, num, endpoint=endpoint, **kw)


def _einsum_obj(subscripts, *ops):
    """einsum for object arrays (explicit 'in->out' form, no ellipsis)."""
    subscripts = subscripts.replace(" ", "")
    ins, out = subscripts.split("->")
    ins = ins.split(",")
    dims = {}
    for s, o in zip(ins, ops):
        assert len(s) == o.ndim, (s, o.shape)
        for ch, n in zip(s, o.shape):
            assert dims.setdefault(ch, n) == n
    summed = [c for c in dims if c not in out]
    res = _np.empty([dims[c] for c in out], dtype=object)
    for oidx in _np.ndindex(*res.shape):
        env = dict(zip(out, oidx))
        acc = 0.0
        for sidx in _np.ndindex(*[dims[c] for c in summed]):
            env.update(zip(summed, sidx))
            term = 1.0
            skip = False
            for s, o in zip(ins, ops):
                v = o[tuple(env[c] for c in s)]
                if not isinstance(v, Sym) and v == 0:
                    skip = True
                    break
                term = term * v
            if not skip:
                acc = acc + term
        res[oidx] = acc
    return res


def true_math_pow(b, e):
    return math.pow(b, e)
