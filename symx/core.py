"""symx core: symbolic reals (z3) that run through real numpy code.

* ``Sym``      -- a real-valued z3 term with eager (forking) comparisons.
* ``Engine``   -- one execution path: decision prefix, path condition, side constraints,
                  registry of uninterpreted-function applications and sqrt variables.
* ``explore``  -- DFS by re-execution over all feasible decision sequences.

Nothing here knows about WallGo; harnesses import the real WallGo functions and call them
with Sym values / numpy object arrays of Sym.
"""
from __future__ import annotations

import fractions
import math
import operator
import time

import numpy as np
import z3

Fraction = fractions.Fraction

# --------------------------------------------------------------------------------------
# exceptions steering the explorer (BaseException so that `except Exception` in the code
# under test cannot swallow them)


class PathAbort(BaseException):
    """Path is infeasible or a precondition (assume) is not met."""


class BoundHit(BaseException):
    """An exploration bound (paths, decisions) was hit: result is inconclusive."""


class HarnessError(Exception):
    """The harness itself is broken (never a finding)."""


# --------------------------------------------------------------------------------------
# constants


LIFT_DENOM = 1000
_lift_stats = {"lifted": 0, "exact": 0}


def lift_float(x: float) -> Fraction:
    """Exact rational value of a double, except that doubles within 1 ulp of p/q with
    q <= LIFT_DENOM are lifted to p/q ("ideal-constant lifting", DESIGN 1.4)."""
    x = float(x)
    if math.isnan(x) or math.isinf(x):
        raise TypeError("non-finite float in symbolic arithmetic")
    if x != 0.0 and abs(x) < 1e-60:
        # regulariser constants such as the `+ 1e-100` guarding 0/0 are dropped (modelling
        # choice, DESIGN 1.4): over the reals they would turn exact identities into
        # identities-up-to-1e-100
        _lift_stats["lifted"] += 1
        return Fraction(0)
    f = Fraction(x)
    if f.denominator == 1:
        return f
    g = f.limit_denominator(LIFT_DENOM)
    if g != f and abs(g - f) <= abs(f) * Fraction(1, 2**52):
        _lift_stats["lifted"] += 1
        return g
    # second chance: multiples of pi are NOT lifted; keep exact double
    _lift_stats["exact"] += 1
    return f


def toz3(x):
    """Convert a python/numpy number (or Sym) into a z3 real term."""
    if isinstance(x, Sym):
        return x.t
    if isinstance(x, (bool, np.bool_)):
        return z3.RealVal(int(x))
    if isinstance(x, (int, np.integer)):
        return z3.RealVal(int(x))
    if isinstance(x, (float, np.floating)):
        return z3.RealVal(lift_float(float(x)))
    if isinstance(x, Fraction):
        return z3.RealVal(x)
    if isinstance(x, complex) and x.imag == 0:
        return toz3(x.real)
    if isinstance(x, np.ndarray) and x.ndim == 0:
        return toz3(x.item())
    raise TypeError(f"cannot lift {type(x)} into a symbolic real")


def is_inf(x) -> bool:
    return isinstance(x, (float, np.floating)) and math.isinf(x)


# --------------------------------------------------------------------------------------
# z3's own timeout is not honoured inside nlsat; enforce it with an interrupt


def timed_check(solver, seconds):
    """solver.check() with a hard wall-clock limit; returns 'sat' | 'unsat' | 'unknown'."""
    import threading
    done = threading.Event()
    ctx = solver.ctx   # NOT the solver: its last reference must never be dropped in the watcher thread
                       # (z3 reference counting is not thread-safe; doing so crashed libz3)

    def watcher():
        if done.wait(max(0.05, seconds)):
            return
        # keep interrupting until check() has returned: a single interrupt that arrives before the
        # solver registered its cancel handler is lost and the query would run unbounded
        while not done.is_set():
            ctx.interrupt()
            if done.wait(0.25):
                return
    th = threading.Thread(target=watcher, daemon=True)
    th.start()
    try:
        r = str(solver.check())
    except z3.Z3Exception:
        r = "unknown"
    finally:
        done.set()
    return r


# --------------------------------------------------------------------------------------
# linearity test (UF applications are opaque atoms: EUF + LRA is cheap)

_lin_cache = {}


def is_linear(t):
    k = t.get_id()
    if k in _lin_cache:
        return _lin_cache[k]
    r = _is_linear(t)
    if len(_lin_cache) > 200000:
        _lin_cache.clear()
    _lin_cache[k] = r
    return r


def _is_linear(t):
    if not z3.is_app(t):
        return False
    kind = t.decl().kind()
    ch = t.children()
    if kind == z3.Z3_OP_MUL:
        if sum(0 if z3.is_rational_value(c) else 1 for c in ch) > 1:
            return False
    elif kind == z3.Z3_OP_DIV:
        if not z3.is_rational_value(ch[1]):
            return False
    elif kind in (z3.Z3_OP_POWER,):
        return False
    elif kind == z3.Z3_OP_UNINTERPRETED and ch:
        # opaque atom, but its arguments must not hide nonlinear structure we rely on
        return True
    return all(is_linear(c) for c in ch)


# --------------------------------------------------------------------------------------
# engine


class Engine:
    """State of one execution path."""

    cur: "Engine | None" = None

    def __init__(self, decisions=(), timeout_ms=20000, max_decisions=400):
        self.decisions = list(decisions)
        self.pos = 0
        self.pc: list = []  # path condition (z3 bools), in order
        self.pc_notes: list = []
        self.side: list = []  # side constraints: input boxes, sqrt defs, stub contracts
        self.todo: list = []  # (index, other polarity) for new decisions on this run
        self.nfresh = 0
        self.sqrt_tab: dict = {}  # sexpr(radicand) -> (var, radicand)
        self.apps: dict = {}  # uf name -> list of (args tuple, app term)
        self.app_cache: dict = {}
        self.oracle: list = []  # ordered (name, term) of fresh / oracle values
        self.timeout_ms = timeout_ms
        self.max_decisions = max_decisions
        self.feas_solver = z3.Solver()
        self.feas_solver.set("timeout", timeout_ms)
        self._nonlinear = []
        self.full_feasibility = True
        self.full_timeout_ms = 1500
        self.full_rlimit = 3000000
        self.known = {}
        self._feas_loaded = 0
        self._side_loaded = 0
        self.solver_time = 0.0
        self.queries = 0
        self.axiom_hooks: list = []  # callables(engine) -> list of z3 bools
        self.log: list = []

    # -- fresh values -----------------------------------------------------------------
    def fresh(self, name="t"):
        self.nfresh += 1
        v = z3.Real(f"{name}!{self.nfresh}")
        self.oracle.append((f"{name}!{self.nfresh}", v))
        return v

    def add_side(self, *conds):
        for c in conds:
            self.side.append(c)

    # -- UF application registry --------------------------------------------------------
    def app(self, uf, *args):
        args = tuple(z3.simplify(a) for a in args)
        key = (uf.name(),) + tuple(a.sexpr() for a in args)
        if key in self.app_cache:
            return self.app_cache[key]
        term = uf(*args)
        self.app_cache[key] = term
        self.apps.setdefault(uf.name(), []).append((args, term))
        return term

    # -- decisions ------------------------------------------------------------------------
    def _sync(self):
        """Load new constraints: linear ones into the light solver, everything into the
        list used by the full (bounded) feasibility check."""
        for c in self.side[self._side_loaded:]:
            if is_linear(c):
                self.feas_solver.add(c)
            else:
                self._nonlinear.append(c)
        self._side_loaded = len(self.side)
        for c in self.pc[self._feas_loaded:]:
            if is_linear(c):
                self.feas_solver.add(c)
            else:
                self._nonlinear.append(c)
        self._feas_loaded = len(self.pc)

    def _check(self, extra):
        """Feasibility of pc + side + extra.  Sound over-approximation: `unsat` only when a
        subset of the constraints is unsat; anything else counts as feasible."""
        self._sync()
        s = self.feas_solver
        t = time.time()
        lin = is_linear(extra)
        try:
            s.push()
            if lin:
                s.add(extra)
            r = timed_check(s, self.timeout_ms / 1000.0)
            s.pop()
        except z3.Z3Exception:
            # a late interrupt of an earlier query cancelled push/pop: the incremental solver's scope
            # stack can no longer be trusted -- rebuild it from the constraints and treat this query
            # as undecided (= feasible: sound, the path is kept)
            self.feas_solver = z3.Solver()
            self.feas_solver.set("timeout", self.timeout_ms)
            self._side_loaded = 0
            self._feas_loaded = 0
            self._nonlinear = []
            r = "unknown"
        self.queries += 1
        if r != "unsat" and (self._nonlinear or not lin or self.axiom_hooks) and self.full_feasibility:
            f = z3.Solver()
            f.set("timeout", self.full_timeout_ms)
            f.set("rlimit", self.full_rlimit)
            f.add(self.side)
            f.add(self.pc)
            f.add(self.current_axioms())
            f.add(extra)
            r2 = timed_check(f, self.full_timeout_ms / 1000.0 * 1.5)
            self.queries += 1
            if r2 == "unsat":
                r = "unsat"
        self.solver_time += time.time() - t
        return r

    def current_axioms(self):
        out = []
        for h in self.axiom_hooks:
            out.extend(h(self))
        return out

    def branch(self, cond, note=None) -> bool:
        cond = z3.simplify(cond)
        if z3.is_true(cond):
            return True
        if z3.is_false(cond):
            return False
        if cond.sexpr() in self.known:
            return self.known[cond.sexpr()]
        if self.pos < len(self.decisions):
            d = self.decisions[self.pos]
            self.pos += 1
            self.pc.append(cond if d else z3.Not(cond))
            self.pc_notes.append(note)
            self._remember(cond, d)
            return d
        key = cond.sexpr()
        if key in self.known:
            return self.known[key]
        if len(self.decisions) >= self.max_decisions:
            raise BoundHit(f"more than {self.max_decisions} decisions on one path")
        feas = []
        for d in (True, False):
            r = self._check(cond if d else z3.Not(cond))
            if r != "unsat":
                feas.append(d)  # unknown counts as feasible (over-approximation)
        if not feas:
            raise PathAbort("infeasible path")
        d = feas[0]
        self.decisions.append(d)
        self.pos += 1
        if len(feas) == 2:
            self.todo.append(len(self.decisions) - 1)
        self.pc.append(cond if d else z3.Not(cond))
        self.pc_notes.append(note)
        self._remember(cond, d)
        return d

    def _remember(self, cond, d):
        self.known[cond.sexpr()] = d
        self.known[z3.simplify(z3.Not(cond)).sexpr()] = not d

    def assume(self, cond):
        """Add an assumption; abort the path if it is infeasible."""
        cond = z3.simplify(cond)
        if z3.is_true(cond):
            return
        if z3.is_false(cond):
            raise PathAbort("assumption false")
        self.side.append(cond)

    def constraints(self):
        return list(self.side) + list(self.pc)


def cur() -> Engine:
    e = Engine.cur
    if e is None:
        raise HarnessError("symbolic operation outside explore()")
    return e


def explore(fn, max_paths=200, timeout_ms=20000, max_decisions=400, on_exception=None,
            engine_setup=None, deadline=None):
    """Run fn() under every feasible decision sequence (DFS by re-execution).

    Returns (results, info) where results is a list of (engine, outcome) and outcome is
    ('ok', value) | ('raise', exception) and info has counts and whether a bound was hit.
    PathAbort paths are dropped (counted).  AssertionError is an ordinary exception here:
    the harness decides what it means.
    """
    stack = [[]]
    results = []
    info = {"paths": 0, "aborted": 0, "bound_hit": False, "solver_time": 0.0, "queries": 0}
    while stack:
        if info["paths"] >= max_paths or (deadline is not None and time.time() > deadline):
            info["bound_hit"] = True
            break
        pre = stack.pop()
        info["paths"] += 1
        e = Engine(pre, timeout_ms=timeout_ms, max_decisions=max_decisions)
        if engine_setup is not None:
            engine_setup(e)
        Engine.cur = e
        try:
            try:
                r = fn()
                results.append((e, ("ok", r)))
            except PathAbort:
                info["aborted"] += 1
            except BoundHit:
                info["bound_hit"] = True
            except Exception as ex:  # noqa: BLE001 - the code under test may raise anything
                results.append((e, ("raise", ex)))
        finally:
            Engine.cur = None
        info["solver_time"] += e.solver_time
        info["queries"] += e.queries
        for idx in e.todo:
            stack.append(e.decisions[:idx] + [not e.decisions[idx]])
    return results, info


# --------------------------------------------------------------------------------------
# uninterpreted transcendental functions

R = z3.RealSort()
UF = {n: z3.Function(n, R, R) for n in
      ("exp", "log", "tanh", "arctanh", "cosh", "sinh", "cos", "sin", "tan", "arctan", "sech2")}
POW = z3.Function("pow", R, R, R)

_TRUE_FN = {
    "exp": math.exp, "log": math.log, "tanh": math.tanh,
    # real part of the complex arctanh (what `np.arctanh(u + 0j).real` returns)
    "arctanh": lambda u: 0.5 * math.log(abs((1 + u) / (1 - u))),
    "cosh": math.cosh, "sinh": math.sinh, "cos": math.cos, "sin": math.sin, "tan": math.tan,
    "arctan": math.atan, "sech2": lambda x: 1.0 / math.cosh(x) ** 2,
    "pow": lambda b, e: b ** e,
}

# value at 0 folded exactly (keeps trivial cases decidable)
_AT_ZERO = {"exp": 1, "tanh": 0, "arctanh": 0, "cosh": 1, "sinh": 0, "cos": 1, "sin": 0, "tan": 0,
            "arctan": 0, "sech2": 1}


# --------------------------------------------------------------------------------------
# Sym


class SymC:
    """Minimal symbolic complex number (real and imaginary parts are Sym / float): only what
    `complex(re + 1j * im)` followed by `.real` / `.imag` needs -- sums, differences and products."""

    __array_priority__ = 1001
    __slots__ = ("real", "imag")

    def __init__(self, re, im):
        self.real, self.imag = re, im

    @staticmethod
    def _parts(v):
        if isinstance(v, SymC):
            return v.real, v.imag
        if isinstance(v, complex):
            return v.real, v.imag
        return v, 0.0

    @staticmethod
    def _op(a, b, f):
        ar, ai = SymC._parts(a)
        br, bi = SymC._parts(b)
        if f is operator.add:
            return SymC(ar + br, ai + bi)
        if f is operator.sub:
            return SymC(ar - br, ai - bi)
        if f is operator.mul:
            return SymC(ar * br - ai * bi, ar * bi + ai * br)
        raise TypeError("symbolic complex numbers support +, -, * only")

    def __add__(s, o): return SymC._op(s, o, operator.add)
    def __radd__(s, o): return SymC._op(o, s, operator.add)
    def __sub__(s, o): return SymC._op(s, o, operator.sub)
    def __rsub__(s, o): return SymC._op(o, s, operator.sub)
    def __mul__(s, o): return SymC._op(s, o, operator.mul)
    def __rmul__(s, o): return SymC._op(o, s, operator.mul)

    def __repr__(s):
        return f"SymC({s.real}, {s.imag})"


def symcomplex(re=0.0, im=None):
    """replacement for the builtin `complex` in patched modules"""
    if isinstance(re, SymC) and im is None:
        return re
    if isinstance(re, Sym) or isinstance(im, Sym):
        return SymC(re, 0.0 if im is None else im)
    return complex(re) if im is None else complex(re, im)


class Sym:
    """Symbolic real.  Comparisons are *eager*: they return a python bool chosen by the
    path explorer, so real numpy code keeps working on object arrays of Sym."""

    __array_priority__ = 1000
    __slots__ = ("t",)

    def __init__(self, t):
        self.t = t

    # arithmetic ----------------------------------------------------------------------
    def _b(self, o, f, rev=False):
        if isinstance(o, np.ndarray):
            return NotImplemented
        if isinstance(o, SymC) or (isinstance(o, complex) and o.imag != 0):
            return SymC._op(o, self, f) if rev else SymC._op(self, o, f)
        try:
            oz = toz3(o)
        except TypeError:
            return NotImplemented
        return Sym(f(oz, self.t) if rev else f(self.t, oz))

    def __add__(s, o): return s._b(o, operator.add)
    def __radd__(s, o): return s._b(o, operator.add, True)
    def __sub__(s, o): return s._b(o, operator.sub)
    def __rsub__(s, o): return s._b(o, operator.sub, True)
    def __mul__(s, o): return s._b(o, operator.mul)
    def __rmul__(s, o): return s._b(o, operator.mul, True)
    def __truediv__(s, o): return s._b(o, operator.truediv)
    def __rtruediv__(s, o): return s._b(o, operator.truediv, True)
    def __neg__(s): return Sym(-s.t)
    def __pos__(s): return s
    def __abs__(s): return Sym(z3.If(s.t >= 0, s.t, -s.t))

    def __pow__(s, o):
        return sym_pow(s, o)

    def __rpow__(s, o):
        return sym_pow(o, s)

    # comparisons (eager) ----------------------------------------------------------------
    def _c(s, o, f):
        if is_inf(o):
            return bool(f(0.0, float(o)))
        if isinstance(o, np.ndarray):
            return NotImplemented
        try:
            oz = toz3(o)
        except TypeError:
            return NotImplemented
        return cur().branch(f(s.t, oz))

    def __lt__(s, o): return s._c(o, operator.lt)
    def __le__(s, o): return s._c(o, operator.le)
    def __gt__(s, o): return s._c(o, operator.gt)
    def __ge__(s, o): return s._c(o, operator.ge)
    def __eq__(s, o): return s._c(o, operator.eq)
    def __ne__(s, o): return s._c(o, operator.ne)
    __hash__ = None

    def __bool__(s):
        return cur().branch(s.t != 0)

    def __float__(s):
        raise TypeError("float() of a symbolic value (patch the module's `float`)")

    def __int__(s):
        raise TypeError("int() of a symbolic value")

    def __repr__(s):
        return f"Sym({s.t})"

    # numpy object-array method dispatch ----------------------------------------------
    @property
    def real(s): return s
    @property
    def imag(s): return Sym(z3.RealVal(0))
    def conjugate(s): return s
    def item(s): return s
    @property
    def shape(s): return ()
    @property
    def ndim(s): return 0

    def sqrt(s): return sym_sqrt(s)
    def exp(s): return sym_uf("exp", s)
    def log(s): return sym_uf("log", s)
    def tanh(s): return sym_uf("tanh", s)
    def arctanh(s): return sym_uf("arctanh", s)
    def cosh(s): return sym_uf("cosh", s)
    def sinh(s): return sym_uf("sinh", s)
    def cos(s): return sym_uf("cos", s)
    def sin(s): return sym_uf("sin", s)
    def tan(s): return sym_uf("tan", s)
    def arctan(s): return sym_uf("arctan", s)
    def square(s): return s * s


def sym(name) -> Sym:
    return Sym(z3.Real(name))


def const(x) -> Sym:
    return Sym(toz3(x))


def sym_uf(name, s):
    if not isinstance(s, Sym):
        return _TRUE_FN[name](float(s))
    t = z3.simplify(s.t)
    if z3.is_rational_value(t) and t.as_fraction() == 0 and name in _AT_ZERO:
        return Sym(z3.RealVal(_AT_ZERO[name]))
    if getattr(cur(), "fold", False) and z3.is_rational_value(t):
        return Sym(z3.RealVal(Fraction(_TRUE_FN[name](float(t.as_fraction())))))
    return Sym(cur().app(UF[name], t))


def sym_sqrt(s):
    if not isinstance(s, Sym):
        return math.sqrt(s)
    e = cur()
    key = z3.simplify(s.t)
    k = key.sexpr()
    if k in e.sqrt_tab:
        return Sym(e.sqrt_tab[k][0])
    if z3.is_rational_value(key):
        q = key.as_fraction()
        n, d = q.numerator, q.denominator
        if n >= 0 and math.isqrt(n) ** 2 == n and math.isqrt(d) ** 2 == d:
            return Sym(z3.RealVal(Fraction(math.isqrt(n), math.isqrt(d))))
        if getattr(e, "fold", False) and q >= 0:
            return Sym(z3.RealVal(Fraction(math.sqrt(float(q)))))
    e.nfresh += 1
    r = z3.Real(f"sqrt!{e.nfresh}")
    e.side += [r >= 0, r * r == key]
    e.sqrt_tab[k] = (r, key)
    return Sym(r)


def _int_pow(t, n):
    if n == 0:
        return z3.RealVal(1)
    if n < 0:
        return 1 / _int_pow(t, -n)
    r = t
    for _ in range(n - 1):
        r = r * t
    return r


def sym_pow(b, o):
    """b ** o.  Integer exponents are expanded as products (z3's x**0 is uninterpreted at
    0), half-integers go through sqrt, anything else is the UF pow(b, o)."""
    if isinstance(o, np.ndarray) or isinstance(b, np.ndarray):
        return NotImplemented
    if not isinstance(o, Sym):
        if isinstance(o, (int, np.integer)) or (
            isinstance(o, (float, np.floating)) and float(o).is_integer() and abs(o) <= 64
        ):
            return Sym(_int_pow(toz3(b), int(o)))
        if isinstance(o, (float, np.floating)) and float(2 * o).is_integer() and abs(o) <= 16:
            return sym_pow(sym_sqrt(b if isinstance(b, Sym) else const(b)), int(2 * o))
    bt = toz3(b)
    ot = toz3(o)
    ots = z3.simplify(ot)
    if z3.is_rational_value(ots):
        q = ots.as_fraction()
        if q.denominator == 1 and abs(q.numerator) <= 64:
            return Sym(_int_pow(bt, q.numerator))
    if getattr(cur(), "fold", False):
        bs = z3.simplify(bt)
        if z3.is_rational_value(bs) and z3.is_rational_value(ots):
            return Sym(z3.RealVal(Fraction(math.pow(float(bs.as_fraction()),
                                                    float(ots.as_fraction())))))
    return Sym(cur().app(POW, bt, ot))


# --------------------------------------------------------------------------------------
# numpy ufunc protocol (ndarray (op) Sym, np.sqrt(Sym), np.maximum(arr, Sym), ...)


def _max(a, b):
    return a if a >= b else b


def _min(a, b):
    return a if a <= b else b


def _generic(name):
    def f(a):
        if isinstance(a, Sym):
            return getattr(a, name)()
        return getattr(np, name)(a)
    return f


def _sign(a):
    if a > 0:
        return 1.0
    if a < 0:
        return -1.0
    return 0.0


_UFUNC = {
    "add": operator.add, "subtract": operator.sub, "multiply": operator.mul,
    "true_divide": operator.truediv, "divide": operator.truediv, "power": operator.pow,
    "negative": operator.neg, "positive": operator.pos, "absolute": abs, "fabs": abs,
    "less": operator.lt, "less_equal": operator.le, "greater": operator.gt,
    "greater_equal": operator.ge, "equal": operator.eq, "not_equal": operator.ne,
    "maximum": _max, "minimum": _min, "fmax": _max, "fmin": _min,
    "square": lambda a: a * a, "sign": _sign,
    "reciprocal": lambda a: 1 / a,
    "isnan": lambda a: False if isinstance(a, Sym) else bool(np.isnan(a)),
    "isfinite": lambda a: True if isinstance(a, Sym) else bool(np.isfinite(a)),
    "isinf": lambda a: False if isinstance(a, Sym) else bool(np.isinf(a)),
    "conjugate": lambda a: a,
}
for _n in ("sqrt", "exp", "log", "tanh", "arctanh", "cosh", "sinh", "cos", "sin", "tan", "arctan"):
    _UFUNC[_n] = _generic(_n)
_CMP = {"less", "less_equal", "greater", "greater_equal", "equal", "not_equal", "isnan",
        "isfinite", "isinf"}


def _box(v):
    if isinstance(v, np.ndarray):
        return v
    a = np.empty((), dtype=object)
    a[()] = v
    return a


def _array_ufunc(self, ufunc, method, *inputs, **kwargs):
    name = ufunc.__name__
    if method != "__call__" or name not in _UFUNC:
        return NotImplemented
    out = kwargs.get("out")
    f = _UFUNC[name]
    ins = [i.item() if (isinstance(i, np.ndarray) and i.ndim == 0) or isinstance(i, np.generic)
           else i for i in inputs]
    if not any(isinstance(i, np.ndarray) for i in ins):
        r = f(*ins)
        # numpy semantics: comparisons of 0-d arrays give np.bool_ (so that ~r is logical)
        r = np.bool_(bool(r)) if name in _CMP else r
    else:
        r = np.frompyfunc(f, len(ins), 1)(*[_box(v) for v in ins])
        if name in _CMP:
            r = r.astype(bool)
    if out is not None:
        out[0][...] = r
        return out[0]
    return r


Sym.__array_ufunc__ = _array_ufunc


# --------------------------------------------------------------------------------------
# non-eager predicates for assumptions and claims (work on Sym and on plain floats)


def _t(x):
    return toz3(x)


def any_sym(*xs):
    for x in xs:
        if isinstance(x, Sym):
            return True
        if isinstance(x, np.ndarray) and x.dtype == object:
            return True
    return False


class Cond:
    """A condition that is either a z3 Bool (symbolic mode) or a python bool."""

    __slots__ = ("z", "b")

    def __init__(self, z=None, b=None):
        self.z = z
        self.b = b

    @property
    def symbolic(self):
        return self.z is not None

    def term(self):
        return self.z if self.z is not None else z3.BoolVal(bool(self.b))

    def value(self):
        if self.z is not None:
            raise HarnessError("symbolic condition evaluated concretely")
        return bool(self.b)


def _cmp(a, b, op):
    if isinstance(a, np.ndarray) and a.ndim == 0:
        a = a.item()
    if isinstance(b, np.ndarray) and b.ndim == 0:
        b = b.item()
    if isinstance(a, Sym) or isinstance(b, Sym):
        if is_inf(a) or is_inf(b):
            fa = float(a) if is_inf(a) else 0.0
            fb = float(b) if is_inf(b) else 0.0
            return Cond(b=bool(op(fa, fb)))
        return Cond(z=op(_t(a), _t(b)))
    return Cond(b=bool(op(a, b)))


def lt(a, b): return _cmp(a, b, operator.lt)
def le(a, b): return _cmp(a, b, operator.le)
def gt(a, b): return _cmp(a, b, operator.gt)
def ge(a, b): return _cmp(a, b, operator.ge)
def eq(a, b): return _cmp(a, b, operator.eq)
def ne(a, b): return _cmp(a, b, operator.ne)


def _lift_cond(c):
    if isinstance(c, Cond):
        return c
    if isinstance(c, (bool, np.bool_)):
        return Cond(b=bool(c))
    if z3.is_bool(c):
        return Cond(z=c)
    raise HarnessError(f"not a condition: {c!r}")


def AND(*cs):
    cs = [_lift_cond(c) for c in cs]
    if any(c.symbolic for c in cs):
        return Cond(z=z3.And([c.term() for c in cs]))
    return Cond(b=all(c.b for c in cs))


def OR(*cs):
    cs = [_lift_cond(c) for c in cs]
    if any(c.symbolic for c in cs):
        return Cond(z=z3.Or([c.term() for c in cs]))
    return Cond(b=any(c.b for c in cs))


def NOT(c):
    c = _lift_cond(c)
    if c.symbolic:
        return Cond(z=z3.Not(c.z))
    return Cond(b=not c.b)


def IMPLIES(a, b):
    return OR(NOT(a), b)


def sabs(x):
    if isinstance(x, Sym):
        return abs(x)
    return abs(x)


def close(a, b, rtol=1e-9, atol=0.0, scale=None):
    """|a-b| <= atol + rtol*scale  (scale defaults to max(|a|,|b|) encoded linearly as
    |a-b| <= atol + rtol*|a|  OR  <= atol + rtol*|b|)."""
    if isinstance(a, np.ndarray) and a.ndim == 0:
        a = a.item()
    if isinstance(b, np.ndarray) and b.ndim == 0:
        b = b.item()
    if isinstance(a, Sym) or isinstance(b, Sym) or isinstance(scale, Sym):
        at, bt = _t(a), _t(b)
        d = at - bt
        rt = z3.RealVal(Fraction(rtol))
        att = z3.RealVal(Fraction(atol))
        if scale is None:
            aa = z3.If(at >= 0, at, -at)
            bb = z3.If(bt >= 0, bt, -bt)
            return Cond(z=z3.And(d <= att + rt * z3.If(aa >= bb, aa, bb),
                                 -d <= att + rt * z3.If(aa >= bb, aa, bb)))
        st = _t(scale)
        return Cond(z=z3.And(d <= att + rt * st, -d <= att + rt * st))
    s = max(abs(a), abs(b)) if scale is None else scale
    return Cond(b=bool(abs(a - b) <= atol + rtol * s))


def exact(a, b):
    return eq(a, b)


# --------------------------------------------------------------------------------------
# helpers for building object arrays


def sym_array(prefix, shape):
    """numpy object array of fresh named symbols (named by index)."""
    a = np.empty(shape, dtype=object)
    for idx in np.ndindex(*a.shape):
        a[idx] = sym(prefix + "_" + "_".join(str(i) for i in idx))
    return a


def unbox(x):
    """0-d object arrays / numpy scalars -> python object."""
    if isinstance(x, np.ndarray) and x.ndim == 0:
        return x.item()
    if isinstance(x, np.generic):
        return x.item()
    return x


def lift_stats():
    return dict(_lift_stats)
